#!/bin/bash
# MANIFEST.setup_cmd: offline dependencies for the checks (idempotent).
set -e
cd "$(dirname "$0")"
export PIP_NO_INDEX=1
WH=/opt/veriftools/wheels
PY=/venv/bin/python
if ! $PY -c "import hypothesis" 2>/dev/null; then
  /venv/bin/pip install --no-index --find-links $WH hypothesis >/dev/null
fi
mkdir -p .deps
if ! PYTHONPATH=.deps $PY -c "import mpmath, jsonschema" 2>/dev/null; then
  /venv/bin/pip install --no-index --find-links $WH --target .deps --upgrade mpmath jsonschema >/dev/null
fi
PYTHONPATH=.deps $PY -c "import mpmath, jsonschema, hypothesis; print('deps ok: hypothesis', hypothesis.__version__, 'mpmath', mpmath.__version__)"
mkdir -p evidence out
