#!/venv/bin/python
"""tools/make_prop_files.py C02 C10 ...: writes /tmp/prop_<ID>.txt (property text + one-line summaries of the seeded changes already
kept for that property) and adds a scratch worktree /tmp/wt_<ID> of /repo for a seeding sub-agent (see DESIGN.md section 11; the
sub-agent gets tools/agent_prompt_template.txt with @ID@ substituted and nothing else from /verif)."""
import glob, json, os, sys
V = os.path.abspath(os.path.join(os.path.dirname(__file__), '..'))
props = {json.loads(l)['id']: json.loads(l) for l in open(os.path.join(V, 'properties.jsonl'))}
for pid in sys.argv[1:]:
    d = props[pid]
    out = [f"Property {pid}: {d['title']}", '', 'Statement: ' + d['statement'], '', 'Quantifies over: ' + d['quantifier']['text'], '',
           'Why the existing tests cannot settle it: ' + d['why_tests_cant'], '', 'Code involved: ' + ', '.join(d['anchors']['files'])]
    out += [f"  - {m['name']} ({m['where']})" for m in d['anchors']['mechanism']]
    out += ['Observed at: ' + '; '.join(d['anchors']['observe_at']), '', 'Changes already produced by colleagues (yours must differ):']
    for m in sorted(glob.glob(os.path.join(V, 'seeded', f'{pid}-*', 'meta.json'))):
        out.append(' * ' + json.load(open(m)).get('summary', '')[:400].replace('\n', ' '))
    open(f'/tmp/prop_{pid}.txt', 'w').write('\n'.join(out) + '\n')
    os.system(f'git -C /repo worktree add -q --detach /tmp/wt_{pid} HEAD')
    print('ready:', pid)
