"""Calibration of the C04 neglected-term constants: prints, per block, the maximum over random cases of
(residual - 4*discretisation change - floor)_+ / (functional form with C_N = 1)."""
import sys, os, json
import numpy as np
import multiprocessing as mp
sys.path.insert(0, os.path.join(os.path.dirname(__file__), '..', '..'))


def work(seed):
    import warnings; warnings.filterwarnings('ignore')
    from pv.props import c04
    from pv.core import Ctx
    rng = np.random.RandomState(seed)
    out = []
    for _ in range(12):
        sp = rng.choice([0.0, rng.uniform(0, 1), 10 ** rng.uniform(0, 2.47)])
        case = dict(lat=float(rng.choice([rng.uniform(-80, 80), 80.0, -80.0, 0.0])), lon=float(rng.uniform(-180, 180)), alt=float(rng.uniform(0, 20000)),
                    speed=float(sp), vdir=rng.uniform(-1, 1, 3).tolist(), roll=float(rng.uniform(-180, 180)), pitch=float(rng.uniform(-80, 80)),
                    heading=float(rng.uniform(-180, 180)), T=float(rng.choice([0.1, 0.5, 1.0, 2.0])), dt=float(rng.choice([0.002, 0.005, 0.01])),
                    with_altitude=bool(rng.rand() < 0.5), sub=int(rng.randint(2 ** 31)))
        ctx = Ctx('C04', 'calib', 'quick'); ctx.begin(case)
        r = c04.residuals(case, ctx)
        v, T = r['v'], r['T']
        ex = np.maximum(r['res_phi'] - 4 * r['chg_phi'] - c04.FLOOR_PHI / T * (1 + v), 0)
        N1 = c04.neglected(v, case['lat'], r['wa'])
        B1 = c04.propagate_bound(N1, r['Fb'], T) / T
        exg = np.maximum(r['res_gam'] - 4 * r['chg_gam'] - c04.FLOOR_GAM / T * (1 + v), 0)
        Gb = c04.propagate_bound(N1, r['Fb'], T) @ (r['Bb'] * 3)
        out.append(dict(v=v, lat=case['lat'], T=T, dt=r['dt'], wa=r['wa'], ex=ex.tolist(), B1=B1.tolist(), res=r['res_phi'].tolist(), chg=r['chg_phi'].tolist(),
                        exg=exg.tolist(), Gb=Gb.tolist(), resg=r['res_gam'].tolist(), chgg=r['chg_gam'].tolist(), Fb=r['Fb'].tolist()))
    return out


if __name__ == '__main__':
    n = int(sys.argv[1]) if len(sys.argv) > 1 else 32
    with mp.Pool(12) as pool:
        rows = [x for part in pool.map(work, range(n)) for x in part]
    json.dump(rows, open('/tmp/c04_calib.json', 'w'))
    ex = np.array([r['ex'] for r in rows]); B1 = np.array([r['B1'] for r in rows])
    np.set_printoptions(linewidth=200, precision=3)
    print('cases', len(rows))
    print('max excess/bound(C=1) per block:\n', (ex / B1).max(axis=0))
    print('argmax rows:')
    for i in range(3):
        for j in range(3):
            k = int(np.argmax(ex[:, i, j] / B1[:, i, j])); r = rows[k]
            print(f'  {i}{j}: ratio {ex[k,i,j]/B1[k,i,j]:.3g} v={r["v"]:.3g} lat={r["lat"]:.3g} T={r["T"]} dt={r["dt"]} wa={r["wa"]} res={r["res"][i][j]:.3g} chg={r["chg"][i][j]:.3g} B1={B1[k,i,j]:.3g}')
    exg = np.array([r['exg'] for r in rows]); Gb = np.array([r['Gb'] for r in rows])
    print('gamma: max excess/bound per block:\n', (exg / np.maximum(Gb, 1e-300)).max(axis=0))
    print('gamma max res, chg:', np.array([r['resg'] for r in rows]).max(axis=0), np.array([r['chgg'] for r in rows]).max(axis=0))
