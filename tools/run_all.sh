#!/bin/bash
# tools/run_all.sh <tier> <seed> [ids...]: runs the registered checks one after another, prints one line per property.
# Evidence files are restored afterwards unless KEEP_EVIDENCE=1 (so that ad-hoc seeds do not replace the committed evidence).
cd "$(dirname "$0")/.."
tier=${1:-quick}; seed=${2:-1}; shift 2
ids=${@:-C01 C02 C03 C04 C05 C06 C07 C08 C09 C10 C11 C12 C13 C14 C15 C16 C17 C18 C19}
mkdir -p out/runall
for p in $ids; do
  [ -z "$KEEP_EVIDENCE" ] && cp evidence/$p.json out/runall/$p.evidence.bak 2>/dev/null
  t0=$(date +%s)
  VERIF_SEED=$seed ./check $p $tier > out/runall/$p.$tier.$seed.log 2>&1; rc=$?
  t1=$(date +%s)
  echo "$p tier=$tier seed=$seed exit=$rc wall=$((t1-t0))s $(grep -c '^VIOLATION' out/runall/$p.$tier.$seed.log) violations $(grep -c '^KNOWN-FINDING' out/runall/$p.$tier.$seed.log) known"
  [ -z "$KEEP_EVIDENCE" ] && cp out/runall/$p.evidence.bak evidence/$p.json 2>/dev/null
done
