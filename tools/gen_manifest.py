#!/venv/bin/python
"""Regenerates MANIFEST.json from the table below and validates it against the schema."""
import json, os, sys
sys.path.insert(0, os.path.join(os.path.dirname(__file__), '..', '.deps'))
V = os.path.abspath(os.path.join(os.path.dirname(__file__), '..'))

CHECKS = {
 'C07': dict(
    technique='property-based testing (Hypothesis) against a 60-digit mpmath Gaussian-conditioning reference; metamorphic block-order and power-of-two rescaling relations',
    text='Generated search over (n<=20, m<=6) x spectrum/rank/conditioning classes with an independent high-precision '
         'posterior as oracle and a derived rounding-model tolerance; detects any O(eps*cond)-exceeding deviation of mean, '
         'covariance or whitened innovation, asymmetry, loss of PSD, input mutation and order dependence on the sampled cases. '
         'No absence proof: exploration.',
    note='Trusts mpmath at 60 digits, numpy eigvalsh for the tolerance model, IEEE-754 binary64; cond(S)>1e12 counted inconclusive.',
    design='DESIGN.md section 4, C07'),
 'C08': dict(
    technique='property-based testing against an independent ODE power-series reference (longdouble + 60-digit mpmath); metamorphic composition law over generated partitions',
    text='Generated search over F classes (zero/nilpotent/stable/unstable/skew/stiff/navigation-like, n<=24), PSD Q incl. singular, dt in [0,10] '
         'and partitions into 1..8 sub-steps; transition and noise integral compared with a reference that shares no algorithm with Van Loan/expm; '
         'symmetry, PSD, exact zero step, composition and partition-independent covariance propagation. Exploration, no absence proof.',
    note='Trusts longdouble/mpmath series reference (cross-checked against each other each run); tolerance includes a flat 5e-12 relative allowance and an absolute 0.05*eps*|exp|^2 floor for scipy expm norm-wise accuracy.',
    design='DESIGN.md section 4, C08'),
 'C16': dict(
    technique='property-based testing against own closed-form WGS-84 in longdouble, finite-difference geometry of the library map, first-order ladders, parity metamorphic relations',
    text='Generated points incl. poles/equator/+-180/both hemispheres/altitudes -10 km..40000 km, evaluated stacked, scalar and as lists; conversions vs closed form and round trip in metres, '
         'frame axes vs own axes and vs partial derivatives of the library lla_to_ecef with principal radii as lengths, perturb/difference/NED/curvature first-order relations on a magnitude ladder, '
         'gravity in all representations vs own Somigliana, gravitation = gravity + Omega x (Omega x r), parity. Exploration.',
    note='Trusts own WGS-84 reference (self-tested), longdouble; first-order relations only for |lat|<=89; round-trip tolerance 1e-6 m.',
    design='DESIGN.md section 4, C16'),
 'C17': dict(
    technique='property-based testing against own elementary-trig DCM with pinned conventions, longdouble Rodrigues formula, central-difference Jacobian',
    text='Generated Euler triples (strata near pitch +-90, cardinal headings, |angles| up to 360) single/stacked/list and rotation vectors log-uniform in [0, pi] incl. +-64 ulp around the '
         'small-angle threshold; DCM entries, sign conventions, round trip, exponential map to 8 eps and continuity across the branch, attitude block of transform_to_output vs derivative of Euler angles. Exploration.',
    note='Trusts own rotation algebra (self-tested with convention pins); scipy as_euler gimbal zone (|pitch|>90-1e-4 deg) checked as a rotation only.',
    design='DESIGN.md section 4, C17'),
 'C02': dict(
    technique='model-based testing over generated operation sequences (Hypothesis-generated op lists interpreted against the real Integrator and a fresh single-shot model), bitwise comparison; kernel bounds checking',
    text='Generated histories of integrate(chunk)/predict/get_pva/get_time/set_pva with chunk sizes aimed at buffer-growth boundaries, initial capacity 1..8, both altitude modes; after every operation the stored trajectory, '
         'time index and return values must be bit-identical to a fresh integrator per segment integrating all rows in one call. Exploration of histories up to 30 operations / 48 rows, plus long records (1000..4100 rows) integrated in one call vs several calls with predict() before every continuation.',
    note='Trusts NUMBA_BOUNDSCHECK=1 to trap out-of-bounds kernel writes and Integrator.INITIAL_SIZE as the capacity knob; float comparison is bitwise.',
    design='DESIGN.md section 4, C02'),
 'C09': dict(
    technique='structured schedule generation (constructed interleaving classes) with exact bookkeeping predicates and a sys.monitoring loop-iteration budget for termination',
    text='Generated IMU epoch tables (uniform/irregular/gapped) x up to three measurement streams with epochs constructed on/between/one-ulp-from IMU samples, clustered, shared, out of span x time_step classes x modes x '
         'defaults; the feedback filter must terminate within n_increments+n_epochs+2 loop iterations, return the exact trajectory index, exactly one innovation per in-span sample stamped with its own time, finite consistent tables. Exploration.',
    note='One measurement object per class; termination judged by an iteration budget the statement implies (every iteration consumes an increment); monitored line located by ast in the current source.',
    design='DESIGN.md section 4, C09'),
 'C10': dict(
    technique='structured schedule generation with exact bookkeeping predicates, step-bound predicate and a sys.monitoring loop-iteration budget',
    text='Same generator as C09 on (nominal, computed) trajectory pairs with/without increments; feedforward filter must terminate within n_rows+n_epochs+2 iterations, return one strictly increasing index that is a subset of the '
         'input times, starts at the first and never steps beyond max(time_step, local gap), use every in-span sample exactly once in time order, stay finite. Exploration.',
    note='As C09.',
    design='DESIGN.md section 4, C10'),
 'C13': dict(
    technique='invariant over generated call histories (bitwise equality predicates) + generated 2D filter schedules + generated 2D measurement cases',
    text='C02 machine in no-altitude mode with arbitrary supplied VD and vertical specific force: every produced row has VD==0.0 and altitude bit-equal to the most recently supplied one; 2D feedback/feedforward runs over generated '
         'schedules: trajectory rows, sd columns down/VD exactly zero; 2D Position/NedVelocity return 2-row z/H/R. Exploration.',
    note='Bitwise comparisons, NUMBA_BOUNDSCHECK=1.',
    design='DESIGN.md section 4, C13'),
 'C05': dict(
    technique='property-based metamorphic testing with an order-of-residual (bound-form ladder) oracle; exact-equality predicates for the 2D mode',
    text='Generated PVA x error direction x magnitude ladder {1..1/256} x mode: left-inverse identity; the state change produced by correct_pva (measured with own geodesy and with compute_state_difference) minus transform_to_output@x '
         'must stay below B s^2 + floor on every rung (a first-order coefficient error of relative size >~1e-5..1e-3 breaks the smallest rung); perturb-then-correct restores the state to second order; 2D rows exactly zero, alt/VD bit-unchanged. Exploration.',
    note='B is the analytic second-order bound with factor 4..6; floors 64..256 ulp; own geodesy and Euler algebra trusted (self-tested).',
    design='DESIGN.md section 4, C05'),
 'C06': dict(
    technique='property-based differential testing: H against central differences of the residual under the library correction convention; residual against own geodesy/DCM; simulator round trip with injected error',
    text='Generated PVA x rates x lever arm x class x mode x measured value: z equals predicted minus measured in documented units (own geodesy), H equals dz/dx along all 9/7 error states incl. lever-arm and rate terms (two-rung central differences), '
         'R = sd^2 I with matching shapes, None at absent times, noise-free simulated measurement gives 0 and an injected error e gives -e. Exploration.',
    note='Central-difference tolerance 2e-5*(1+|V|+|l|(1+|w|)) plus the second-order meridian-convergence coupling |z| tan(lat)/R for Position.',
    design='DESIGN.md section 4, C06'),
 'C14': dict(
    technique='property-based testing of algebraic inverse/identity relations between simulator and estimator; block-wise enumeration of the enable-mask space; deterministic statistical test of simulated variances',
    text='Generated enable masks (110592 valid; thorough enumerates all 512 scale/misalignment masks of every (bias, noise) block it draws and reports coverage) x parameter values x sensor type x irregular stamps x argument forms: '
         'simulate-then-correct is the identity (64 ulp cond T), output_matrix(x)@state-by-name equals the simulated error, update additivity, name/shape/covariance/noise layout, invalid masks rejected, and normalised simulated white noise / bias walk have unit variance. Exploration.',
    note='Variance thresholds [0.8,1.25] and +-0.1 on 10000 samples (>9 sigma); mask space completeness is reported under masks_enumerated_completely, parameter values are sampled.',
    design='DESIGN.md section 4, C14'),
 'C15': dict(
    technique='property-based testing against a longdouble RK4+Richardson reference with a bound-form order-of-residual oracle over an interval ladder',
    text='Generated linear and sinusoidal 3-axis signals x sensor type x ladder 160..1.25 ms: rotation vector error <= c S5 h^5 and velocity increment error after adding a x (a x d) h^3/6 <= c S4 h^4 for linear signals (exact through the cubic terms; the only '
         'cubic discrepancy is the neglected rotation term), O(h^3) bounds for sinusoids; table structure (rows, index, dt bitwise, locality) for uniform and irregular stamps. Exploration.',
    note='Constants c calibrated on the unchanged tree with >=5x margin (recorded in the module); reference error estimated by step doubling each case.',
    design='DESIGN.md section 4, C15'),
 'C18': dict(
    technique='property-based metamorphic and reference-model testing (own interpolation / shortest-arc / metre conversion), exact rational congruence check for angle reduction',
    text='Generated table pairs by relation class (identical, nested, denser/sparser, offset, partial overlap; jittered stamps; column subsets/permutations/extras; headings wrapping at +-180), Series pairs and arbitrary finite angles in all container forms: '
         'antisymmetry, self/sub-sample zero, result index/columns, values vs own reference, first-order recovery of perturbations on a ladder, resample_state row/linearity/shortest-arc/ordering, to_180_range range and exact congruence mod 360. Exploration. '
         'One known finding (nested sub-sampling misjudged by the median-interval rule) is excluded by construction and reported as KNOWN-FINDING.',
    note='Self-difference "exactly zero" judged within 64 ulp of column magnitudes; antisymmetry at +-180 modulo 360.',
    design='DESIGN.md section 4, C18'),
 'C01': dict(
    technique='property-based differential testing against an independent RK4 solution of the NED navigation ODE on WGS-84; halving-change metamorphic rule',
    text='Generated initial states over the whole stated domain x 3-axis sinusoid-sum body signals x sensor type x h in 1..50 ms x horizons 2..300 s; the user path compute_increments_from_imu -> Integrator.integrate is compared with an own '
         'reference (different formulation, own constants): on the levels h, h/2, h/4 (, h/8): err(h_k) <= 4*max(|X_hk - X_hk/2|, |X_hk/2 - X_hk/4|) + floor and err(finest) <= 0.9 max err(coarser) + floor per state group, so any error component that does not vanish with the interval is exposed. Exploration.',
    note='Reference RK4 at 0.5/0.25 ms (their difference enters the floor); rounding floors 1e-4 m / 1e-6 m/s / 1e-9 rad; horizons 2..300 s in clause convergence and 1200 / 5064 s (one Schuler period) in clause schuler.',
    design='DESIGN.md section 4, C01'),
 'C03': dict(
    technique='property-based testing against designed trajectories with exact kinematics from second-order jets (cross-validated against the navigation ODE); halving-change rule; strapdown round trip',
    text='Generated smooth trajectories (both hemispheres, up to 250 m/s, 3-axis attitude motion) x three input forms x two sensor types x ladder 100..12.5 ms: synthesised readings vs exact w_ib^b / f^b (or Gauss-Legendre integrals), '
         'returned trajectories vs the design, round-trip through the integrator, and rest cases vs C^T Omega / -C^T g. Exploration.',
    note='Stated rounding floor for accelerations 128*ulp(6.4e6)/h^2 (double differentiation of inertial position inside the synthesiser).',
    design='DESIGN.md section 4, C03'),
 'C04': dict(
    technique='property-based differential testing: measured sensitivity of the real integrator (central differences in the library error coordinates) vs the flow of the model matrices, per-block tolerances from a propagated neglected-term bound',
    text='Generated operating points (low-speed stratum, |lat|<=80, both modes) x constant-rate/force increments x T in 0.1..2 s x dt in 2..10 ms: all 9/7 state directions and 6 sensor directions; every 3x3 block of the measured transition and input response must agree '
         'with the product of exponentials of [F B;0 0]dt built from system_matrices within bound(neglected terms)+4*discretisation change+floor. A sign or factor error in any block is 10^2..10^8 x its tolerance in the stratum built for it. propagate_errors on uniform / irregular rows, time origins, weaving across the +-180 seam of heading/roll with a fixed-tolerance representation-invariance relation; argument forms (int64 columns, Series/stack/one-row table). Exploration.',
    note='Neglected-term forms and constants calibrated on the unchanged tree (1152 cases, margin >= 2..5x, recorded in the module); propagate_errors clause compares against the same perturbed integrations.',
    design='DESIGN.md section 4, C04'),
 'C11': dict(
    technique='property-based reference-model testing: own one-shot (non-recursive) Gauss-Markov solution assembled from the public model pieces with own discretisation and interpolation',
    text='Generated runs over the C04 domain x random enable masks of both sensor models x sigmas over 4 decades x 1..3 measurement sensors (on/off grid, clustered, lever arms) x time steps 0.2..5 s x both modes: compensated trajectory, trajectory_sd, sensor estimates and sd and '
         'every normalised innovation must equal the joint-Gaussian conditioning over the whole run within 1e-6 sigma (measured agreement 5e-11). Exploration.',
    note='The time grid is read from the filter output (scheduling is C10); cond(Cov Z) > 1e10 counted inconclusive; the oracle calls public system_matrices / EstimationModel attributes / compute_matrices by design.',
    design='DESIGN.md section 4 and 4b, C11'),
 'C12': dict(
    technique='property-based differential/metamorphic testing: bit-identity with plain integration; error-scale ladder for first-order agreement of the two filters; run-twice bit-identity',
    text='(a) generated schedules whose samples all lie outside the span (or None/[]) x time steps x sensor models x modes: feedback trajectory bit-identical to Integrator.integrate; (b) unit error realisation scaled by s in {1,...,1e-3}: '
         'disagreement with the feedforward filter in sigma units must shrink (x0.5 then x0.2 per decade + 0.1) and end below 0.2 (sigma tables 0.02); (c) both filters re-run with the same model objects are bit-identical. Exploration.',
    note='(b) is coarse by nature: it certifies shrinking down to a floor of 0.1 sigma caused by the error model\'s documented omissions (measured, see DESIGN 4b), evaluated at speeds <= 30 m/s; it detects O(1) sigma disagreements. Epoch placement (on / between IMU samples, first interval, initial time), lever arms and a banked turn are generated; one known finding (between-sample epochs leave a 0.1..0.45 sigma floor: zero-order hold of the feedforward state) is judged against a 1.0 sigma allowance and reported as KNOWN-FINDING.',
    design='DESIGN.md section 4 and 4b, C12'),
 'C19': dict(
    technique='property-based testing over a registry of public callables: deep argument snapshots, run-twice bit-identity, form agreement, schema predicates; generated call sequences with re-issued calls',
    text='65 registry entries covering every public function/method of the ten modules (Turntable.generate_imu excluded) with arguments as writable ndarrays, lists, Series, DataFrames: no argument modified (except documented sensor-model estimates in filters), '
         'equal inputs and integer seeds give bit-identical outputs, repeated and re-ordered calls reveal no hidden state, alternative forms (incl. tuples and integer-typed arguments) agree within 4 ulp, returned tables carry the documented columns/index; for every entry additionally: arguments overwritten in place between calls, the same arguments after calls with other arguments, and returned arrays overwritten by the caller must not change later results. Exploration.',
    note='Registry is hand-written; the evidence lists public callables it does not cover (none at present).',
    design='DESIGN.md section 4 and 4b, C19'),
}
NOT_YET = 'check not built yet in this session (planned, see DESIGN.md section 8); not claimed until its check exists'

def main():
    props = [json.loads(l) for l in open(os.path.join(V, 'properties.jsonl'))]
    checks, na = [], []
    for p in props:
        pid = p['id']
        c = CHECKS.get(pid)
        if c is None:
            na.append({'property_id': pid, 'reason': NOT_YET})
            continue
        checks.append({
            'property_id': pid,
            'quick_cmd': f'./check {pid} quick',
            'thorough_cmd': f'./check {pid} thorough',
            'evidence_file': f'/verif/evidence/{pid}.json',
            'replay_cmd_template': f'./check {pid} --replay {{path}}',
            'engine': 'pv',
            'level_claimed': {'category': 'exploration', 'text': c['text'], 'design_ref': c['design']},
            'level_note': c['note'],
            'technique': c['technique'],
        })
    man = {
        'version': 1,
        'setup_cmd': './setup.sh',
        'hooks': {'guard': 'PYINS_VERIF', 'enable': 'no source hooks are needed: checks import /repo as it is (PYTHONPATH) and observe it through public API, Integrator.INITIAL_SIZE, NUMBA_BOUNDSCHECK=1 and sys.monitoring',
                  'baseline_off_cmd': 'cd /repo && /venv/bin/python -m pytest -ra -q -p no:cacheprovider --timeout=900 --continue-on-collection-errors',
                  'source_commits': [], 'add_only': True},
        'engines': [{'name': 'pv', 'path': '/verif/pv', 'serves_properties': sorted(CHECKS),
                     'kind_free_text': 'Hypothesis-driven generated search (cases are JSON data; clauses with explicit independent oracles; sharded over 16 processes; shrunk failures written as replay files re-run without Hypothesis)'}],
        'checks': checks,
        'not_applicable': na,
        'notes': 'Every check: ./check <ID> quick|thorough; env VERIF_SEED selects the Hypothesis seed; exit 0 ok / 1 VIOLATION / 2 harness error. Committed regression inputs in replays/<ID>/ run first in every tier. Findings protocol: known_findings.json.',
    }
    # 'not_applicable' stays in the file even when empty: every listed property is claimed (DESIGN.md section 7)
    import jsonschema
    jsonschema.validate(man, json.load(open('/root/.vp/MANIFEST.schema.json')))
    json.dump(man, open(os.path.join(V, 'MANIFEST.json'), 'w'), indent=1)
    print('MANIFEST.json written:', len(checks), 'checks,', len(na), 'not_applicable')

if __name__ == '__main__':
    main()
