#!/venv/bin/python
"""Regenerates MANIFEST.json from the table below and validates it against the schema."""
import json, os, sys
sys.path.insert(0, os.path.join(os.path.dirname(__file__), '..', '.deps'))
V = os.path.abspath(os.path.join(os.path.dirname(__file__), '..'))

CHECKS = {
 'C07': dict(
    technique='property-based testing (Hypothesis) against a 60-digit mpmath Gaussian-conditioning reference; metamorphic block-order relation',
    text='Generated search over (n<=20, m<=6) x spectrum/rank/conditioning classes with an independent high-precision '
         'posterior as oracle and a derived rounding-model tolerance; detects any O(eps*cond)-exceeding deviation of mean, '
         'covariance or whitened innovation, asymmetry, loss of PSD, input mutation and order dependence on the sampled cases. '
         'No absence proof: exploration.',
    note='Trusts mpmath at 60 digits, numpy eigvalsh for the tolerance model, IEEE-754 binary64; cond(S)>1e12 counted inconclusive.',
    design='DESIGN.md section 4, C07'),
}
NOT_YET = 'check not built yet in this session (planned, see DESIGN.md section 8); not claimed until its check exists'

def main():
    props = [json.loads(l) for l in open(os.path.join(V, 'properties.jsonl'))]
    checks, na = [], []
    for p in props:
        pid = p['id']
        c = CHECKS.get(pid)
        if c is None:
            na.append({'property_id': pid, 'reason': NOT_YET})
            continue
        checks.append({
            'property_id': pid,
            'quick_cmd': f'./check {pid} quick',
            'thorough_cmd': f'./check {pid} thorough',
            'evidence_file': f'/verif/evidence/{pid}.json',
            'replay_cmd_template': f'./check {pid} --replay {{path}}',
            'engine': 'pv',
            'level_claimed': {'category': 'exploration', 'text': c['text'], 'design_ref': c['design']},
            'level_note': c['note'],
            'technique': c['technique'],
        })
    man = {
        'version': 1,
        'setup_cmd': './setup.sh',
        'hooks': {'guard': 'PYINS_VERIF', 'enable': 'no source hooks are needed: checks import /repo as it is (PYTHONPATH) and observe it through public API, Integrator.INITIAL_SIZE, NUMBA_BOUNDSCHECK=1 and sys.monitoring',
                  'baseline_off_cmd': 'cd /repo && /venv/bin/python -m pytest -ra -q -p no:cacheprovider --timeout=900 --continue-on-collection-errors',
                  'source_commits': [], 'add_only': True},
        'engines': [{'name': 'pv', 'path': '/verif/pv', 'serves_properties': sorted(CHECKS),
                     'kind_free_text': 'Hypothesis-driven generated search (cases are JSON data; clauses with explicit independent oracles; sharded over 16 processes; shrunk failures written as replay files re-run without Hypothesis)'}],
        'checks': checks,
        'not_applicable': na,
        'notes': 'Every check: ./check <ID> quick|thorough; env VERIF_SEED selects the Hypothesis seed; exit 0 ok / 1 VIOLATION / 2 harness error. Committed regression inputs in replays/<ID>/ run first in every tier. Findings protocol: known_findings.json.',
    }
    if not na:
        del man['not_applicable']
    import jsonschema
    jsonschema.validate(man, json.load(open('/root/.vp/MANIFEST.schema.json')))
    json.dump(man, open(os.path.join(V, 'MANIFEST.json'), 'w'), indent=1)
    print('MANIFEST.json written:', len(checks), 'checks,', len(na), 'not_applicable')

if __name__ == '__main__':
    main()
