#!/venv/bin/python
"""Evaluate one seeded change produced by an independent sub-agent.

    tools/seed_eval.py <PROPERTY> <dir with patch.diff demo.py meta.json> <name> [--tier quick] [--no-tests] [--also C05,C17]

Confirms in a fresh scratch worktree of /repo that (1) demo passes on the pristine tree, (2) fails with
the patch, (3) the repository's baseline tests still pass with the patch; then runs the registered
check(s) against the patched worktree (VERIF_REPO) and records everything in /verif/seeded/<name>/.
The worktree is removed afterwards; nothing is ever applied to /repo itself.
"""
import json, os, shutil, subprocess, sys, tempfile, time, xml.etree.ElementTree as ET

V = os.path.abspath(os.path.join(os.path.dirname(__file__), '..'))


def sh(cmd, cwd=None, env=None, timeout=3600):
    p = subprocess.run(cmd, shell=True, cwd=cwd, env=env, capture_output=True, text=True, timeout=timeout)
    return p.returncode, p.stdout + p.stderr


def main():
    prop, src, name = sys.argv[1:4]
    tier = 'quick'
    do_tests = '--no-tests' not in sys.argv
    also = []
    if '--also' in sys.argv:
        also = sys.argv[sys.argv.index('--also') + 1].split(',')
    if '--tier' in sys.argv:
        tier = sys.argv[sys.argv.index('--tier') + 1]
    dst = os.path.join(V, 'seeded', name)
    os.makedirs(dst, exist_ok=True)
    for f in ('patch.diff', 'demo.py', 'meta.json'):
        if os.path.abspath(os.path.join(src, f)) != os.path.abspath(os.path.join(dst, f)):
            shutil.copy(os.path.join(src, f), os.path.join(dst, f))
    meta = json.load(open(os.path.join(dst, 'meta.json')))
    wt = tempfile.mkdtemp(prefix='seedwt_')
    os.rmdir(wt)
    rc, out = sh(f'git -C /repo worktree add -q --detach {wt} HEAD')
    assert rc == 0, out
    ran = []
    try:
        env = dict(os.environ, PYTHONWARNINGS='ignore')
        rc0, o0 = sh(f'/venv/bin/python {dst}/demo.py', cwd=wt, env=env)
        ran.append(f'demo on pristine worktree: exit {rc0}')
        rc, out = sh(f'git apply {dst}/patch.diff', cwd=wt)
        assert rc == 0, 'patch does not apply: ' + out
        rc1, o1 = sh(f'/venv/bin/python {dst}/demo.py', cwd=wt, env=env)
        ran.append(f'demo with patch: exit {rc1}')
        prev = meta.get('confirmed', {})
        tests_ok = prev.get('baseline_tests_pass_with_patch') if not do_tests else None
        if meta.get('checks'):
            meta.setdefault('checks_before_strengthening', []).append(meta['checks'])
        tp = None
        if do_tests:
            tp = subprocess.Popen(f'/venv/bin/python -m pytest pyins/tests -q -p no:cacheprovider --timeout=900 --junitxml={wt}/junit.xml > {wt}/pytest.log 2>&1',
                                  shell=True, cwd=wt, env=env)
        results = {}
        for pid in [prop] + also:
            ev = os.path.join(V, 'evidence', f'{pid}.json')
            backup = open(ev).read() if os.path.exists(ev) else None
            t0 = time.time()
            rc2, o2 = sh(f'./check {pid} {tier}', cwd=V, env=dict(os.environ, VERIF_REPO=wt))
            if backup is not None:
                open(ev, 'w').write(backup)
            viol = [l for l in o2.splitlines() if l.startswith('violation ')]
            results[pid] = {'exit': rc2, 'caught': rc2 == 1, 'wall_s': round(time.time() - t0, 1),
                            'first_violation': viol[0][:400] if viol else None,
                            'tail': o2.strip().splitlines()[-1][:300] if o2.strip() else ''}
            ran.append(f'VERIF_REPO=<patched worktree> ./check {pid} {tier}: exit {rc2}')
        if tp is not None:
            tp.wait()
            base = set(json.load(open('/root/.vp/BASELINE.json'))['stable_pass'])
            passed = set()
            try:
                for tc in ET.parse(f'{wt}/junit.xml').getroot().iter('testcase'):
                    if not any(ch.tag in ('failure', 'error', 'skipped') for ch in tc):
                        passed.add(tc.get('classname') + '::' + tc.get('name'))
            except Exception as e:
                ran.append(f'junit parse failed: {e}')
            tests_ok = base <= passed
            ran.append(f'baseline tests with patch: {len(base & passed)}/{len(base)} pass')
            if not tests_ok:
                meta['tests_not_passing'] = sorted(base - passed)
        meta.update({'property': prop, 'confirmed': {'demo_passes_on_pristine': rc0 == 0, 'demo_fails_with_patch': rc1 != 0,
                                                     'baseline_tests_pass_with_patch': tests_ok},
                     'checks': results, 'verified_by_me': ran,
                     'valid_seed': bool(rc0 == 0 and rc1 != 0 and tests_ok is not False)})
        json.dump(meta, open(os.path.join(dst, 'meta.json'), 'w'), indent=1)
        print(name, 'valid_seed' if meta['valid_seed'] else 'INVALID', {k: ('caught' if v['caught'] else f"MISSED(exit {v['exit']})") for k, v in results.items()},
              '| demo', rc0, rc1, '| tests', tests_ok)
        for k, v in results.items():
            print('   ', k, v['first_violation'] or v['tail'])
    finally:
        sh(f'git -C /repo worktree remove --force {wt}')
        shutil.rmtree(wt, ignore_errors=True)


if __name__ == '__main__':
    main()
