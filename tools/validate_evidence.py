#!/venv/bin/python
import json, os, sys, glob
sys.path.insert(0, os.path.join(os.path.dirname(__file__), '..', '.deps'))
import jsonschema
sch = json.load(open('/root/.vp/EVIDENCE.schema.json'))
V = os.path.abspath(os.path.join(os.path.dirname(__file__), '..'))
bad = 0
for f in sorted(glob.glob(os.path.join(V, 'evidence', '*.json'))):
    try:
        jsonschema.validate(json.load(open(f)), sch); print('ok ', os.path.basename(f))
    except Exception as e:
        bad += 1; print('BAD', f, str(e)[:300])
sys.exit(1 if bad else 0)
