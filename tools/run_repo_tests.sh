#!/bin/bash
# Runs the repository's baseline test command (guard off) and compares with BASELINE.json's stable_pass list.
OUT=${1:-/tmp/repo_tests.junit.xml}
cd /repo && /venv/bin/python -m pytest -ra -q -p no:cacheprovider --timeout=900 --continue-on-collection-errors --junitxml=$OUT > ${OUT%.xml}.log 2>&1
/venv/bin/python - "$OUT" <<'PY'
import json, sys, xml.etree.ElementTree as ET
base = set(json.load(open('/root/.vp/BASELINE.json'))['stable_pass'])
passed = set()
for tc in ET.parse(sys.argv[1]).getroot().iter('testcase'):
    if not any(ch.tag in ('failure', 'error', 'skipped') for ch in tc):
        passed.add(tc.get('classname') + '::' + tc.get('name'))
missing = sorted(base - passed)
print('baseline tests passing: %d/%d' % (len(base & passed), len(base)))
for m in missing: print('  NOT PASSING:', m)
sys.exit(1 if missing else 0)
PY
