"""Tolerance helpers: ulps, ladder tests."""
import numpy as np

EPS = float(np.finfo(float).eps)


def ulp(x):
    """Spacing of float64 at |x| (array-aware); ulp(0) = smallest normal spacing used: eps*tiny."""
    x = np.abs(np.asarray(x, dtype=float))
    return np.spacing(np.maximum(x, np.finfo(float).tiny))


def bits_equal(a, b):
    """Bitwise equality of two float arrays (NaN-safe, distinguishes -0.0)."""
    a = np.ascontiguousarray(np.asarray(a, dtype=np.float64))
    b = np.ascontiguousarray(np.asarray(b, dtype=np.float64))
    return a.shape == b.shape and bool(np.array_equal(a.view(np.uint64), b.view(np.uint64)))


def values_equal(a, b):
    """Equality of float arrays treating -0.0 == 0.0, NaN never equal."""
    a = np.asarray(a, dtype=np.float64)
    b = np.asarray(b, dtype=np.float64)
    return a.shape == b.shape and bool(np.all(a == b))


def observed_order(eps_list, res_list, floor):
    """Least-squares slope of log(res) vs log(eps) using the rungs above `floor`.
    Returns (order, n_rungs_used)."""
    e = np.asarray(eps_list, float)
    r = np.asarray(res_list, float)
    m = r > floor
    if m.sum() < 2:
        return None, int(m.sum())
    A = np.vstack([np.log(e[m]), np.ones(m.sum())]).T
    slope = np.linalg.lstsq(A, np.log(r[m]), rcond=None)[0][0]
    return float(slope), int(m.sum())
