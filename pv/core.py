"""Runner plumbing shared by all property modules.

A property module (pv/props/cNN.py) exposes

    PROPERTY = 'C07'
    RULE     = '...how cases are generated, what makes one non-trivial...'
    ASSUMPTIONS = [...]
    CLAUSES  = [Clause(...), ...]

Every clause is (strategy, run):  `strategy()` returns a Hypothesis strategy that
produces a JSON-serialisable *case* (dict of python scalars / lists / strings; bulk
numeric content is expanded deterministically from integer sub-seeds that are part of
the case), `run(case, ctx)` executes the oracle against pyins and raises `Violation`
when the property is broken on that case.  Because a case is plain JSON data, a shrunk
failure is written out as a replay file and re-run later with Hypothesis bypassed.
"""
import hashlib
import json
import os
import sys
import time
import traceback
from collections import Counter
from dataclasses import dataclass, field

VERIF_DIR = os.path.dirname(os.path.dirname(os.path.abspath(__file__)))
REPO = os.environ.get('VERIF_REPO', '/repo')


class Violation(Exception):
    """The property does not hold on the current case."""

    def __init__(self, sig, msg=''):
        super().__init__(f'{sig}: {msg}')
        self.sig = sig
        self.msg = msg


class HarnessError(Exception):
    pass


@dataclass
class Clause:
    name: str
    strategy: object            # callable () -> hypothesis strategy
    run: object                 # callable (case, ctx)
    quick: tuple = (100, 1)     # (examples in total, shards)
    thorough: tuple = (2000, 16)
    shrink_quick: bool = True
    doc: str = ''


def digest(case):
    return hashlib.sha1(json.dumps(case, sort_keys=True).encode()).hexdigest()[:16]


def compact(obj, limit=600):
    s = json.dumps(obj, sort_keys=True)
    if len(s) <= limit:
        return obj
    return {'_truncated_json': s[:limit] + '...', '_digest': digest(obj)}


class Ctx:
    """Collector handed to clause.run for one task (clause x shard)."""

    def __init__(self, prop, clause, tier):
        self.prop = prop
        self.clause = clause
        self.tier = tier
        self.evals = 0
        self.nontrivial = set()
        self.labels = Counter()
        self.samples = []
        self.stats = {}
        self.excluded = Counter()
        self.inconclusive = Counter()
        self.truncated = False
        self._case = None
        self._case_labels = None

    # -- case lifecycle
    def begin(self, case):
        self._case = case
        self._case_labels = set()

    def end_ok(self):
        """Called after a case ran to completion (pass); commits counters."""
        self.evals += 1
        for lab in self._case_labels:
            self.labels[lab] += 1

    # -- reporting from inside run()
    def label(self, *names):
        for n in names:
            self._case_labels.add(str(n))

    def mark_nontrivial(self, flag=True):
        if flag:
            self._nt_pending = True

    def stat(self, name, value):
        """Track the maximum of a residual/tolerance ratio (how close to the line)."""
        value = float(value)
        if value != value:
            return
        if name not in self.stats or value > self.stats[name]:
            self.stats[name] = value

    def check(self, cond, sig, msg=''):
        if not cond:
            raise Violation(sig, msg() if callable(msg) else msg)

    def sut(self, fn, *args, **kwargs):
        """Call into pyins; an exception on a generated (in-domain) input is a violation."""
        try:
            return fn(*args, **kwargs)
        except Violation:
            raise
        except LoopBudgetExceeded as e:
            raise Violation('nontermination', str(e))
        except Exception as e:  # noqa
            tb = traceback.extract_tb(e.__traceback__)
            where = ''
            for fr in reversed(tb):
                if '/pyins/' in fr.filename:
                    where = f'{os.path.basename(fr.filename)}:{fr.name}'
                    break
            raise Violation(f'exception:{type(e).__name__}@{where}',
                            f'{type(e).__name__}: {e}')


class LoopBudgetExceeded(BaseException):
    """Raised from a sys.monitoring callback when a watched loop exceeds its budget."""


# ------------------------------------------------------------------------------------
# known findings

def load_known():
    path = os.path.join(VERIF_DIR, 'known_findings.json')
    if not os.path.exists(path):
        return []
    with open(path) as f:
        return json.load(f).get('findings', [])


def match_known(known, prop, clause, sig):
    for k in known:
        if (k.get('status') == 'known' and k['property'] == prop
                and k.get('clause') in (None, clause) and k['signature'] == sig):
            return k
    return None


# ------------------------------------------------------------------------------------
# running one task

def _settings(n, shrink):
    from hypothesis import settings, HealthCheck, Phase
    phases = [Phase.explicit, Phase.reuse, Phase.generate, Phase.target]
    if shrink:
        phases.append(Phase.shrink)
    return settings(max_examples=n, database=None, deadline=None, derandomize=False,
                    report_multiple_bugs=False, phases=phases,
                    suppress_health_check=[HealthCheck.too_slow,
                                           HealthCheck.data_too_large,
                                           HealthCheck.large_base_example],
                    print_blob=False)


def load_module(prop):
    import importlib
    return importlib.import_module(f'pv.props.{prop.lower()}')


def run_one_case(clause, case, ctx):
    ctx.begin(case)
    ctx._nt_pending = False
    clause.run(case, ctx)
    ctx.end_ok()
    if ctx._nt_pending:
        d = digest(case)
        if d not in ctx.nontrivial:
            ctx.nontrivial.add(d)
            if len(ctx.samples) < 3:
                ctx.samples.append({'clause': clause.name, 'case': compact(case)})


def run_task(args):
    """Executed in a worker process. Returns a JSON-able result dict."""
    prop, clause_name, tier, seed, shard, n_examples, budget_s, shrink = args
    t0 = time.time()
    res = {'clause': clause_name, 'shard': shard, 'seed': seed * 1000 + shard,
           'violation': None, 'harness_error': None}
    try:
        import hypothesis
        from hypothesis import given
        mod = load_module(prop)
        clause = {c.name: c for c in mod.CLAUSES}[clause_name]
        known = load_known()
        ctx = Ctx(prop, clause_name, tier)
        failing = {}
        deadline = t0 + budget_s

        @hypothesis.seed(seed * 1000 + shard)
        @_settings(n_examples, shrink)
        @given(clause.strategy())
        def test(case):
            if time.time() > deadline and not failing:
                ctx.truncated = True
                return
            try:
                run_one_case(clause, case, ctx)
            except Violation as v:
                k = match_known(known, prop, clause_name, v.sig)
                if k is not None:
                    ctx.excluded[k['id']] += 1
                    return
                failing['case'] = case
                failing['sig'] = v.sig
                failing['msg'] = v.msg
                raise

        try:
            test()
        except Violation:
            res['violation'] = failing
        except BaseException as e:  # harness problem (or hypothesis health check)
            if isinstance(e, KeyboardInterrupt):
                raise
            res['harness_error'] = ''.join(
                traceback.format_exception(type(e), e, e.__traceback__))[-6000:]
        res.update(evals=ctx.evals, nontrivial=sorted(ctx.nontrivial),
                   labels=dict(ctx.labels), samples=ctx.samples, stats=ctx.stats,
                   excluded=dict(ctx.excluded), inconclusive=dict(ctx.inconclusive),
                   truncated=ctx.truncated)
    except BaseException as e:  # import errors etc.
        if isinstance(e, KeyboardInterrupt):
            raise
        res['harness_error'] = ''.join(
            traceback.format_exception(type(e), e, e.__traceback__))[-6000:]
        res.setdefault('evals', 0)
        res.setdefault('nontrivial', [])
        res.setdefault('labels', {})
        res.setdefault('samples', [])
        res.setdefault('stats', {})
        res.setdefault('excluded', {})
        res.setdefault('inconclusive', {})
        res.setdefault('truncated', False)
    res['wall_s'] = time.time() - t0
    return res


def write_replay(prop, clause, failing, seed, tier):
    d = os.path.join(VERIF_DIR, 'out', 'replays', prop)
    os.makedirs(d, exist_ok=True)
    name = f"{clause}-{digest(failing['case'])}.json"
    path = os.path.join(d, name)
    with open(path, 'w') as f:
        json.dump({'property': prop, 'clause': clause, 'signature': failing['sig'],
                   'message': failing['msg'][:2000], 'found_by': {'seed': seed, 'tier': tier},
                   'case': failing['case']}, f, indent=1, sort_keys=True)
    return path


def replay_file(prop, path, quiet=False):
    """Re-run one saved case with Hypothesis bypassed. Returns (violated, sig, msg)."""
    with open(path) as f:
        rec = json.load(f)
    if rec['property'] != prop:
        raise HarnessError(f'{path} belongs to {rec["property"]}, not {prop}')
    mod = load_module(prop)
    clause = {c.name: c for c in mod.CLAUSES}.get(rec['clause'])
    if clause is None:
        raise HarnessError(f'{path}: unknown clause {rec["clause"]}')
    ctx = Ctx(prop, clause.name, 'replay')
    try:
        run_one_case(clause, rec['case'], ctx)
    except Violation as v:
        return True, v.sig, v.msg
    return False, None, None
