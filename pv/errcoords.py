"""Error-state coordinates in the library's OWN convention, built from independent pieces.

Convention (documented in error_model / measurements): correct_pva(ins, x) = true, i.e. for a
true state and an INS state
    DR  = NED metres from true to ins
    PHI = rotation vector with  C_true = exp(PHI x) C_ins
    DV  = V_ins - exp(-PHI x) V_true
Output coordinates: north/east/down metres, NED velocity difference, roll/pitch/heading degrees.
"""
import numpy as np
import pandas as pd

from .ref import rot as R
from .ref import wgs84 as W

LLA = ['lat', 'lon', 'alt']
VEL = ['VN', 'VE', 'VD']
RPH = ['roll', 'pitch', 'heading']


def wrap180(d):
    return (np.asarray(d, float) + 180.0) % 360.0 - 180.0


def metres(lla_a, lla_b):
    """NED metres of a relative to b: principal radii at the mid point (own closed form)."""
    a = np.asarray(lla_a, float)
    b = np.asarray(lla_b, float)
    rm, rt = W.radii(0.5 * (a[..., 0] + b[..., 0]), 0.5 * (a[..., 2] + b[..., 2]))
    cm = np.cos(0.5 * (a[..., 0] + b[..., 0]) * W.D2R)
    return np.stack([(a[..., 0] - b[..., 0]) * W.D2R * rm,
                     wrap180(a[..., 1] - b[..., 1]) * W.D2R * rt * cm,
                     -(a[..., 2] - b[..., 2])], axis=-1)


def output_difference(ins, true):
    """ins - true in output coordinates (9-vector), own geodesy / own wrap."""
    d = np.empty(9)
    d[0:3] = metres(ins[LLA].values.astype(float), true[LLA].values.astype(float))
    d[3:6] = ins[VEL].values.astype(float) - true[VEL].values.astype(float)
    d[6:9] = wrap180(ins[RPH].values.astype(float) - true[RPH].values.astype(float))
    return d


def internal_error(ins, true):
    """x (9-vector DR, DV, PHI) such that correct_pva(ins, x) = true."""
    dr = metres(ins[LLA].values.astype(float), true[LLA].values.astype(float))
    Ci = R.dcm_from_rph(ins[RPH].values.astype(float), np.longdouble)
    Ct = R.dcm_from_rph(true[RPH].values.astype(float), np.longdouble)
    phi = np.asarray(R.log_so3(Ct @ Ci.T), float)
    E = np.asarray(R.exp_so3(-phi), float)
    dv = ins[VEL].values.astype(float) - E @ true[VEL].values.astype(float)
    return np.concatenate([dr, dv, phi])
