"""Shared generators: PVA dictionaries, increment tables, small helpers.

Everything a strategy returns is JSON data; `to_pva` / `increments_table` expand it.
"""
import numpy as np
import pandas as pd
from hypothesis import strategies as st

TRAJ_COLS = ['lat', 'lon', 'alt', 'VN', 'VE', 'VD', 'roll', 'pitch', 'heading']
INC_COLS = ['dt', 'theta_x', 'theta_y', 'theta_z', 'dv_x', 'dv_y', 'dv_z']
ERR_COLS = ['north', 'east', 'down', 'VN', 'VE', 'VD', 'roll', 'pitch', 'heading']


def lat_strategy(max_abs=85.0):
    return st.one_of(
        st.sampled_from([0.0, max_abs, -max_abs, 1e-7, -1e-7, 55.0, -33.0]),
        st.floats(-max_abs, max_abs), st.floats(-max_abs, max_abs),
        st.floats(-5, 5), st.floats(75.0, max_abs) if max_abs > 75 else st.floats(-max_abs, max_abs),
        st.floats(-max_abs, -75.0) if max_abs > 75 else st.floats(-max_abs, max_abs))


def lon_strategy():
    return st.one_of(st.sampled_from([0.0, 180.0, -180.0, 179.9999, -179.9999, 90.0, -90.0]),
                     st.floats(-180, 180), st.floats(-180, 180))


def speed_strategy(max_speed=300.0):
    return st.one_of(st.just(0.0), st.floats(0, 1.0), st.floats(1.0, 30.0), st.floats(30.0, max_speed))


def pva_strategy(max_lat=85.0, max_pitch=85.0, alt=(-500.0, 20000.0), max_speed=300.0, vd=True):
    """dict with lat, lon, alt, speed, vdir (unit-ish 3 vector), roll, pitch, heading."""
    return st.fixed_dictionaries({
        'lat': lat_strategy(max_lat),
        'lon': lon_strategy(),
        'alt': st.one_of(st.sampled_from([0.0, alt[0], alt[1]]), st.floats(alt[0], alt[1])),
        'speed': speed_strategy(max_speed),
        'vdir': st.lists(st.floats(-1, 1), min_size=3, max_size=3),
        'roll': st.one_of(st.sampled_from([0.0, 180.0, -180.0, 90.0]), st.floats(-180, 180), st.floats(-180, 180),
                          st.floats(5, 175), st.floats(-175, -5)),
        'pitch': st.one_of(st.sampled_from([0.0, max_pitch, -max_pitch]), st.floats(-max_pitch, max_pitch),
                           st.floats(5, max_pitch), st.floats(-max_pitch, -5),
                           st.floats(max_pitch - 5, max_pitch), st.floats(-max_pitch, -max_pitch + 5)),
        'heading': st.one_of(st.sampled_from([0.0, 180.0, -180.0, 90.0, -90.0, 179.999]), st.floats(-180, 180),
                             st.floats(5, 85), st.floats(95, 175), st.floats(-175, -95), st.floats(-85, -5)),
    })


def to_pva(d, time=0.0):
    v = np.asarray(d['vdir'], float)
    n = np.linalg.norm(v)
    v = v / n * d['speed'] if n > 1e-9 else np.array([d['speed'], 0.0, 0.0])
    return pd.Series([d['lat'], d['lon'], d['alt'], v[0], v[1], v[2], d['roll'], d['pitch'], d['heading']],
                     index=TRAJ_COLS, name=time)


def increments_table(sub, n, t0=0.0, kind='irregular', theta_max=0.5, dv_max=5.0, dt_max=1.0, vertical=0.0):
    """n increments starting after t0; dt in (0, dt_max]; |theta|<=theta_max, |dv|<=dv_max."""
    rng = np.random.RandomState(sub)
    if kind == 'uniform':
        dt = np.full(n, float(rng.choice([0.005, 0.01, 0.02, 0.1])))
    else:
        dt = rng.uniform(1e-3, dt_max, n) * rng.choice([1.0, 0.1, 0.01], n)
    t = t0 + np.cumsum(dt)
    dt = np.diff(np.concatenate([[t0], t]))
    theta = rng.uniform(-1, 1, (n, 3)) * theta_max * rng.choice([1.0, 0.1, 0.0], (n, 1), p=[0.6, 0.3, 0.1])
    dv = rng.uniform(-1, 1, (n, 3)) * dv_max * rng.choice([1.0, 0.1, 0.0], (n, 1), p=[0.6, 0.3, 0.1])
    dv[:, 2] += vertical * dt
    return pd.DataFrame(np.column_stack([dt, theta, dv]), index=pd.Index(t, name='time'), columns=INC_COLS)
