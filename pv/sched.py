"""Schedule generator shared by C09, C10, C12, C13: IMU epoch tables and measurement streams
whose time stamps are CONSTRUCTED from the interleaving classes the properties name, plus a
sys.monitoring loop-iteration budget that turns non-termination into a reported violation.
"""
import ast
import inspect
import sys

import numpy as np
import pandas as pd
from hypothesis import strategies as st

from . import gen
from .core import LoopBudgetExceeded

EPOCH_KINDS = ['on', 'frac', 'tiny_before', 'tiny_after', 'cluster', 'start', 'end', 'before', 'after',
               'in_gap', 'pair_adjacent']
SENSORS = ['Position', 'NedVelocity', 'BodyVelocity']


def epoch_strategy():
    return st.fixed_dictionaries({
        'kind': st.sampled_from(EPOCH_KINDS),
        'i': st.integers(0, 63),
        'alpha': st.sampled_from([0.5, 0.25, 0.9, 1e-9, 1 - 1e-9, 0.3333]),
        'count': st.integers(2, 4),
    })


def schedule_strategy(modes=(True, False), meas_modes=('list', 'list', 'list', 'none', 'empty'),
                      step_kinds=('below', 'equal', 'nonmultiple', 'above_span', 'default', 'mid'),
                      models=('none', 'bias', 'full')):
    def mk():
        sensor = st.fixed_dictionaries({
            'cls': st.sampled_from(SENSORS),
            'epochs': st.lists(epoch_strategy(), min_size=1, max_size=6),
            'use_shared': st.booleans(),
            'lever': st.sampled_from(['none', 'zero', 'arm']),
        })
        return st.fixed_dictionaries({
            'n': st.integers(4, 40),
            'sampling': st.sampled_from(['uniform', 'irregular', 'gapped']),
            'base_dt': st.sampled_from([0.01, 0.05, 0.1]),
            't0': st.sampled_from([0.0, 100.0, -3.5]),
            'gap_at': st.integers(1, 63),
            'gap_len': st.integers(3, 50),
            'gap_dt': st.sampled_from(['span', 'span', 'nominal']),        # dt column over a gap: its length, or an outage (the row after the gap covers its own interval only)
            'inc_cover': st.sampled_from(['full', 'full', 'holes']),       # feedforward only: increments table with missing rows
            'twin': st.sampled_from([False, False, False, True]),
            'shuffle': st.sampled_from([False, False, True]),              # measurement tables with their rows not in chronological order
            'whole_seconds': st.sampled_from([False, False, False, True]),  # 1 s uniform sampling from an integer origin (tables may then carry an integer index)          # a second stream of the first sensor's class (second antenna / receiver)
            'sub': st.integers(0, 2 ** 31 - 1),
            'sensors': st.lists(sensor, min_size=1, max_size=3, unique_by=lambda s: s['cls']),
            'shared': st.lists(epoch_strategy(), min_size=0, max_size=3),
            'step_kind': st.sampled_from(list(step_kinds)),
            'with_altitude': st.sampled_from(list(modes)),
            'meas_mode': st.sampled_from(list(meas_modes)),
            'models': st.sampled_from(list(models)),
        })
    return mk


def imu_times(case):
    n = case['n']
    rng = np.random.RandomState(case['sub'])
    if case.get('whole_seconds') and case['sampling'] == 'uniform':
        return np.floor(case['t0']) + np.arange(n + 1, dtype=float), None
    dts = np.full(n, case['base_dt'])
    if case['sampling'] == 'irregular':
        dts = dts * rng.uniform(0.5, 1.5, n)
    gap_i = None
    if case['sampling'] == 'gapped':
        gap_i = case['gap_at'] % n
        dts[gap_i] *= case['gap_len']
    t = case['t0'] + np.concatenate([[0.0], np.cumsum(dts)])
    return t, gap_i


def epoch_times(desc, t, gap_i):
    """Times produced by one epoch descriptor (list)."""
    n = len(t) - 1
    i = desc['i'] % n
    a = desc['alpha']
    k = desc['kind']
    lo, hi = t[i], t[i + 1]
    if k == 'on':
        return [t[desc['i'] % (n + 1)]]
    if k == 'frac':
        return [lo + a * (hi - lo)]
    if k == 'tiny_before':
        return [float(np.nextafter(hi, -np.inf))]
    if k == 'tiny_after':
        return [float(np.nextafter(lo, np.inf))]
    if k == 'cluster':
        c = desc['count']
        return [lo + (j + 1) / (c + 1) * (hi - lo) for j in range(c)]
    if k == 'pair_adjacent':      # one ulp before an IMU sample and exactly on it (+ same for the next)
        return [float(np.nextafter(hi, -np.inf)), hi]
    if k == 'start':
        return [t[0]]
    if k == 'end':
        return [t[-1]]
    if k == 'before':
        return [t[0] - a * 3.0 - 1e-3]
    if k == 'after':
        return [t[-1] + a * 3.0 + 1e-3]
    if k == 'in_gap':
        g = gap_i if gap_i is not None else i
        return [t[g] + a * (t[g + 1] - t[g])]
    raise ValueError(k)


class Scenario:
    """Everything derived from a schedule case: IMU epochs, increments, truth, measurement objects."""

    def __init__(self, case, need_rates=False):
        from pyins import strapdown, measurements
        self.case = case
        t, gap_i = imu_times(case)
        self.t = t
        self.gap_i = gap_i
        n = len(t) - 1
        rng = np.random.RandomState(case['sub'] ^ 0x1234567)
        dts = np.diff(t)
        if gap_i is not None and case.get('gap_dt', 'span') == 'nominal':
            dts = dts.copy()
            dts[gap_i] = case['base_dt']          # the stamps jump, the increment covers only its own sampling interval (also at row 0)
        # gentle 3-axis motion: small rates, specific force ~ reaction to gravity
        w = 0.05 * np.column_stack([np.sin(0.7 * t[1:] + 0.3), np.cos(0.5 * t[1:]), 0.6 * np.sin(0.3 * t[1:] + 1)])
        f = np.column_stack([0.3 * np.sin(0.4 * t[1:]), 0.2 * np.cos(0.6 * t[1:]), -9.81 + 0.1 * np.sin(0.9 * t[1:])])
        # increments are NOT exact products rate x dt (real ones carry coning/sculling terms and sensor noise): otherwise
        # rounding identities such as (x / dt) * dt == x hold by construction and hide non-transparent corrections
        inc = np.column_stack([dts, w * dts[:, None] + rng.randn(n, 3) * 1e-9, f * dts[:, None] + rng.randn(n, 3) * 1e-8])
        self.increments = pd.DataFrame(inc, index=pd.Index(t[1:], name='time'), columns=gen.INC_COLS)
        lat = float(rng.choice([50.0, -33.0, 2.0]))
        self.pva0 = pd.Series([lat, float(rng.choice([10.0, -120.0, 179.99])), 100.0, 3.0, -2.0,
                               0.0 if not case['with_altitude'] else 0.2, 1.0, -2.0, 40.0],
                              index=gen.TRAJ_COLS, name=float(t[0]))
        self.truth = strapdown.Integrator(self.pva0, case['with_altitude']).integrate(self.increments)
        self.truth.index.name = 'time'
        # measurement epochs per sensor
        shared = sorted({x for d in case['shared'] for x in epoch_times(d, t, gap_i)})
        self.samples = {}
        self.measurements = []
        self.classes = set()
        for s in case['sensors']:
            times = {x for d in s['epochs'] for x in epoch_times(d, t, gap_i)}
            if s['use_shared']:
                times |= set(shared)
            times = np.array(sorted(times), dtype=float)
            self.samples[s['cls']] = times
            data = self._truth_at(times, rng)
            arm = {'none': None, 'zero': np.zeros(3), 'arm': np.array([1.0, -0.5, 0.3])}[s['lever']]
            if s['cls'] == 'Position':
                m = measurements.Position(data[['lat', 'lon', 'alt']], 2.0, arm)
            elif s['cls'] == 'NedVelocity':
                m = measurements.NedVelocity(data[['VN', 'VE', 'VD']], 0.3, arm)
            else:
                m = measurements.BodyVelocity(data[['VX', 'VY', 'VZ']], 0.3)
            if case.get('shuffle') and len(m.data) > 1:
                m.data = m.data.iloc[np.random.RandomState(case['sub'] ^ 0x5f).permutation(len(m.data))]
            self.measurements.append(m)
        if case.get('twin') and case['sensors']:
            # a second stream of the first sensor's class with its own lever arm: half of its samples interleave with the
            # first stream's (mid-way to the next sample), half coincide with them; innovations are reported per class name
            s = case['sensors'][0]
            first = self.samples[s['cls']]
            if len(first):
                nxt = np.r_[first[1:], first[-1] + 2 * case['base_dt']]
                times = np.unique(np.where(np.arange(len(first)) % 2 == 0, 0.5 * (first + nxt), first))
                data = self._truth_at(times, rng)
                arm = np.array([-2.0, 0.4, 0.1])
                if s['cls'] == 'Position':
                    m = measurements.Position(data[['lat', 'lon', 'alt']], 2.0, arm)
                elif s['cls'] == 'NedVelocity':
                    m = measurements.NedVelocity(data[['VN', 'VE', 'VD']], 0.3, arm)
                else:
                    m = measurements.BodyVelocity(data[['VX', 'VY', 'VZ']], 0.3)
                self.measurements.insert(int(rng.randint(len(self.measurements) + 1)), m)
                self.samples[s['cls']] = np.sort(np.r_[first, times])
                self.twin = True
        self._classify()

    def _truth_at(self, times, rng):
        tr = self.truth
        tt = np.asarray(tr.index, float)
        tq = np.clip(times, tt[0], tt[-1])
        out = {}
        for c in gen.TRAJ_COLS:
            out[c] = np.interp(tq, tt, tr[c].values)
        df = pd.DataFrame(out, index=pd.Index(times, name='time'))
        k = len(times)
        df['lat'] += rng.randn(k) * 1e-5
        df['lon'] += rng.randn(k) * 1e-5
        df['alt'] += rng.randn(k) * 1.0 + (50.0 if not self.case['with_altitude'] else 0.0)
        for c in ('VN', 'VE', 'VD'):
            df[c] += rng.randn(k) * 0.2
        if not self.case['with_altitude']:
            df['VD'] += 3.0          # arbitrary vertical content must not leak in 2D
        df['VX'] = np.hypot(df.VN, df.VE) + rng.randn(k) * 0.1
        df['VY'] = rng.randn(k) * 0.1
        df['VZ'] = rng.randn(k) * 0.1
        return df

    def _classify(self):
        t = self.t
        labels = set()
        all_t = np.array(sorted({x for v in self.samples.values() for x in v}), dtype=float)
        inside = all_t[(all_t >= t[0]) & (all_t < t[-1])]
        self.n_epochs_inside = len(inside)
        self.n_samples_total = int(sum(len(v) for v in self.samples.values()))
        if len(all_t) and (np.any(all_t < t[0]) or np.any(all_t >= t[-1])):
            labels.add('out_of_span_sample')
        if len(inside):
            on = np.isin(inside, t)
            if on.any():
                labels.add('on_grid_epoch')
            if (~on).any():
                labels.add('off_grid_epoch')
            bins = np.bincount(np.searchsorted(t, inside, side='right') - 1, minlength=len(t))
            self.max_per_interval = int(bins.max())
            if bins.max() == 2:
                labels.add('two_epochs_in_one_interval')
            if bins.max() >= 3:
                labels.add('three_or_more_epochs_in_one_interval')
            if np.any((bins[:-1] >= 2) & (bins[1:] >= 2)):
                labels.add('clusters_in_adjacent_intervals')
            if bins[-2] >= 2:
                labels.add('cluster_in_last_interval')
        else:
            self.max_per_interval = 0
        cnt = {}
        for v in self.samples.values():
            for x in v:
                cnt[x] = cnt.get(x, 0) + 1
        if any(c >= 2 for x, c in cnt.items() if t[0] <= x < t[-1]):
            labels.add('epoch_shared_between_sensors')
        if self.gap_i is not None:
            labels.add('imu_gap')
            if len(inside) and np.any((inside > t[self.gap_i]) & (inside < t[self.gap_i + 1])):
                labels.add('epoch_inside_gap')
        if getattr(self, 'twin', False):
            labels.add('two_streams_of_one_class')
        self.labels = labels

    def time_step(self):
        k = self.case['step_kind']
        d = np.diff(self.t)
        if k == 'below':
            return float(d.min() * 0.37)
        if k == 'equal':
            return float(d.min())
        if k == 'nonmultiple':
            return float(np.median(d) * 2.3)
        if k == 'above_span':
            return float((self.t[-1] - self.t[0]) * 3 + 1.0)
        if k == 'mid':
            return float(np.median(d) * 5)
        return None      # default

    def models(self):
        from pyins import inertial_sensor as isn
        k = self.case['models']
        if k == 'none':
            return None, None
        if k == 'bias':
            return (isn.EstimationModel(bias_sd=1e-4, noise=1e-4),
                    isn.EstimationModel(bias_sd=1e-2, bias_walk=1e-4))
        return (isn.EstimationModel(bias_sd=1e-4, noise=1e-4, bias_walk=1e-6, scale_misal_sd=1e-3 * np.eye(3)),
                isn.EstimationModel(bias_sd=[1e-2, 0, 1e-2], noise=[1e-3, 1e-3, 0], scale_misal_sd=1e-3))

    def meas_arg(self):
        mm = self.case['meas_mode']
        if mm == 'none':
            return None
        if mm == 'empty':
            return []
        return self.measurements

    def expected_samples(self, cls):
        """Sample times of one sensor inside [start, end)."""
        if self.case['meas_mode'] != 'list':
            return None
        v = self.samples[cls]
        return v[(v >= self.t[0]) & (v < self.t[-1])]


# ------------------------------------------------------------------------------------------
# loop iteration budget via sys.monitoring

TOOL_ID = 4
_state = {'lines': None, 'count': 0, 'budget': 10 ** 12, 'active': False}


def _while_lines():
    from pyins import filters
    src = inspect.getsource(filters)
    tree = ast.parse(src)
    out = {}
    for fn in ast.walk(tree):
        if isinstance(fn, ast.FunctionDef) and fn.name in ('run_feedback_filter', 'run_feedforward_filter'):
            # outermost while loop of the function body
            loops = [node for node in fn.body if isinstance(node, ast.While)]
            out[fn.name] = loops[0].lineno
    return out


def _callback(code, line):
    st_ = _state
    if st_['active'] and line == st_['lines'].get(code.co_name):
        st_['count'] += 1
        if st_['count'] > st_['budget']:
            st_['active'] = False
            raise LoopBudgetExceeded(f"{code.co_name}: main loop header executed more than {st_['budget']} times")
    return None


def install_monitor():
    from pyins import filters
    mon = sys.monitoring
    if _state['lines'] is None:
        _state['lines'] = _while_lines()
        if mon.get_tool(TOOL_ID) is None:
            mon.use_tool_id(TOOL_ID, 'pv-loop-budget')
        mon.register_callback(TOOL_ID, mon.events.LINE, _callback)
        for f in (filters.run_feedback_filter, filters.run_feedforward_filter):
            mon.set_local_events(TOOL_ID, f.__code__, mon.events.LINE)


def run_with_budget(budget, fn, *args, **kwargs):
    """Calls fn; raises LoopBudgetExceeded when the filter's main loop header runs > budget+1 times."""
    install_monitor()
    _state['count'] = 0
    _state['budget'] = budget + 1          # the header is evaluated once more to exit
    _state['active'] = True
    try:
        return fn(*args, **kwargs)
    finally:
        _state['active'] = False
        _state['last_count'] = _state['count']


def last_loop_count():
    return _state.get('last_count', 0)
