"""C01 - strapdown integration converges to the true navigation solution.

Oracle: own RK4 solution of the NED navigation ODE on WGS-84 (pv/ref/navode.py); the SUT runs at step
sizes h, h/2, h/4 (, h/8); rules  err(h_k) <= 4 * max(|X_hk - X_hk/2|, |X_hk/2 - X_hk/4|) + floor,  err(finest) <= 0.9 max(err(coarser)) + floor.
The SUT path is exactly the user's: compute_increments_from_imu -> Integrator.integrate.
"""
import numpy as np
import pandas as pd
from hypothesis import strategies as st

from ..core import Clause
from .. import gen
from ..ref import navode as N
from ..ref import rot as ROT
from ..ref import wgs84 as W

PROPERTY = 'C01'
RULE = ('Cases: initial lat in [-85,85] (strata |lat|<5, mid, >75, both signs), any lon incl. +-180, alt -500..20000 m, '
        'speed 0..300 m/s in a random direction, attitude uniform on SO(3) (|pitch| up to 89.9); body rate and specific '
        'force = constant (reaction to gravity in the initial attitude) + 1..3 sinusoids per axis with amplitudes '
        'log-uniform up to 3 rad/s / 2 g (scaled down for long horizons), 0.2..8 rad/s; sensor type rate (exact samples) '
        'or increment (analytic integrals, incl. the "before" sample); h in {1,2,5,10,20,50} ms; horizon in {2,10,60,300} s; clause '
        '`schuler`: horizons 1200 s and 5064 s (one Schuler period) with gentle signals at 10..50 ms. '
        'Oracle: own RK4 of the NED navigation ODE at 0.5 and 0.25 ms (their difference enters the floor); state distance '
        '= (position m, velocity m/s, attitude rotation angle rad), max over 10 checkpoints. Non-trivial = 3-axis '
        'rotation with non-parallel rate harmonics and non-zero speed, and "discriminating": 4*d(h,h/2)+floor below '
        '1 m / 0.01 m/s / 1e-5 rad so that a non-vanishing error of that size is visible.')
ASSUMPTIONS = ['reference RK4 step 0.5/0.25 ms; reference self-error (difference of the two) x4 added to the floor',
               'rounding floor 1e-4 m, 1e-6 m/s, 1e-9 rad (accumulated float64 rounding over up to 6e5 steps), multiplied by cosh(T/570 s) (position, velocity: unstable vertical channel) and T/300 s (attitude) for the long horizons',
               'cases whose reference solution leaves |lat|<88, alt in [-5 km, 60 km], speed < 1500 m/s are inconclusive']

COLS = ['gyro_x', 'gyro_y', 'gyro_z', 'accel_x', 'accel_y', 'accel_z']
H_CHOICES = [0.001, 0.002, 0.005, 0.01, 0.02, 0.05]


def case_strategy():
    return st.fixed_dictionaries({
        'pva': gen.pva_strategy(max_lat=85.0, max_pitch=89.9),
        'sensor_type': st.sampled_from(['rate', 'increment']),
        # 1/300 s and 1/128 s: sampling intervals that are not a whole number of microseconds (nor of any decimal unit)
        'h': st.sampled_from(H_CHOICES + [0.001, 0.002, 0.005, 1 / 300, 1 / 300, 1 / 128]),
        'T': st.sampled_from([2.0, 2.0, 10.0, 10.0, 60.0, 300.0]),
        'nharm': st.integers(1, 3),
        'wamp_exp': st.floats(-3.0, 0.477),      # log10 rad/s up to 3
        'famp_exp': st.floats(-2.0, 1.29),       # log10 m/s^2 up to ~2 g
        'sub': st.integers(0, 2 ** 31 - 1),
        't0': st.sampled_from([0.0, 0.0, 250.0, -40.0, 86400.0]),      # records need not start at time zero
    })


def build_signals(case, C0, lat, alt):
    rng = np.random.RandomState(case['sub'])
    K = case['nharm']
    T = case['T']
    scale = {2.0: 1.0, 10.0: 1.0, 60.0: 0.1, 300.0: 0.02, 1200.0: 0.004, 5064.0: 0.001}[T]
    wamp = 10 ** case['wamp_exp'] * scale
    famp = 10 ** case['famp_exp'] * scale
    P = np.zeros((6, K + 1, 3))
    for c in range(6):
        for k in range(K):
            P[c, k] = [(wamp if c < 3 else famp) * rng.uniform(0.2, 1) / K, rng.uniform(0.2, 8), rng.uniform(0, 2 * np.pi)]
    g = float(W.gravity(lat, alt))
    fb0 = C0.T @ np.array([0.0, 0.0, -g])
    for c in range(3):
        P[3 + c, K] = [fb0[c], 0.0, np.pi / 2]
    if T > 300:
        # long horizons: the constant part of the body rate is Earth rate in the initial body axes, so that the platform
        # stays near level (Schuler regime) instead of tilting by Earth rate x T
        wb0 = C0.T @ W.rate_n(lat)
        for c in range(3):
            P[c, K] = [wb0[c], 0.0, np.pi / 2]
    return P, wamp, famp


def state_distance(tr, ref):
    """tr: DataFrame rows (lat,lon deg,...); ref: (n,10) reference states. Returns (pos m, vel m/s, att rad) max."""
    lat_r = ref[:, 0] / W.D2R
    lon_r = ref[:, 1] / W.D2R
    rm, rt = W.radii(lat_r, ref[:, 2])
    dn = (tr['lat'].values - lat_r) * W.D2R * rm
    de = ((tr['lon'].values - lon_r + 180) % 360 - 180) * W.D2R * rt * np.cos(ref[:, 0])
    dd = tr['alt'].values - ref[:, 2]
    dpos = np.sqrt(dn ** 2 + de ** 2 + dd ** 2)
    dv = np.linalg.norm(tr[['VN', 'VE', 'VD']].values - ref[:, 3:6], axis=1)
    Ct = np.asarray(ROT.dcm_from_rph(tr[['roll', 'pitch', 'heading']].values), float)
    Cr = N.dcm_from_quat(ref[:, 6:10])
    da = ROT.angle_between(Ct, Cr)
    return np.array([dpos.max(), dv.max(), da.max()])


def table_distance(a, b):
    rm, rt = W.radii(a['lat'].values, a['alt'].values)
    dn = (a['lat'].values - b['lat'].values) * W.D2R * rm
    de = ((a['lon'].values - b['lon'].values + 180) % 360 - 180) * W.D2R * rt * np.cos(a['lat'].values * W.D2R)
    dd = a['alt'].values - b['alt'].values
    dpos = np.sqrt(dn ** 2 + de ** 2 + dd ** 2)
    dv = np.linalg.norm(a[['VN', 'VE', 'VD']].values - b[['VN', 'VE', 'VD']].values, axis=1)
    Ca = np.asarray(ROT.dcm_from_rph(a[['roll', 'pitch', 'heading']].values), float)
    Cb = np.asarray(ROT.dcm_from_rph(b[['roll', 'pitch', 'heading']].values), float)
    return np.array([dpos.max(), dv.max(), ROT.angle_between(Ca, Cb).max()])


def sut_run(ctx, pva, P, T, h, stype, nout, t0=0.0, layout=0):
    from pyins import strapdown
    n = int(round(T / h))
    if stype == 'rate':
        t = h * np.arange(0, n + 1)
        vals = N.sample_rate(t, P)
    else:
        t = h * np.arange(0, n + 1)
        vals = N.sample_increment(t, h, P)     # row 0 = integral over [-h, 0]: the conventional "before" sample
    # the signals are functions of the time since the start of the record; the stamps carry the record's origin
    imu = pd.DataFrame(vals, index=pd.Index(t0 + t, name='time'), columns=COLS)
    if layout == 1:        # the readings are a LABELLED table: accelerometer triad first
        imu = imu[COLS[3:] + COLS[:3]]
    elif layout == 2:      # an unrelated leading column, sensors interleaved
        imu.insert(0, 'temperature', 21.5)
        imu = imu[['temperature', 'gyro_x', 'accel_x', 'gyro_y', 'accel_y', 'gyro_z', 'accel_z']]
    inc = ctx.sut(strapdown.compute_increments_from_imu, imu, stype)
    tr = ctx.sut(strapdown.Integrator(pva).integrate, inc)
    ctx.check(len(tr) == n + 1, 'row_count', f'{len(tr)} vs {n + 1}')
    ctx.check(np.array_equal(np.asarray(tr.index, float), t0 + t), 'time_index', f'trajectory stamps differ from the sample stamps (origin {t0})')
    idx = np.arange(0, n + 1, n // nout)
    return tr.iloc[idx]


FLOOR = np.array([1e-4, 1e-6, 1e-9])
NAMES = ('position', 'velocity', 'attitude')


def run_convergence(case, ctx):
    t0 = case.get('t0', 0.0)
    pva = gen.to_pva(case['pva'], t0)
    T, h, stype = case['T'], case['h'], case['sensor_type']
    if int(round(T / h)) % 10:
        h = 1 / 300               # the ten checkpoints must fall on samples (1/128 s over 2 s does not)
    C0 = np.asarray(ROT.dcm_from_rph(pva[['roll', 'pitch', 'heading']].values.astype(float)), float)
    P, wamp, famp = build_signals(case, C0, pva.lat, pva.alt)
    q = ROT.quat_from_dcm(C0)
    y0 = np.hstack([pva.lat * W.D2R, pva.lon * W.D2R, pva.alt, pva[['VN', 'VE', 'VD']].values.astype(float), q])
    nout = 10
    ref_step = 5e-4 if T <= 300 else 2e-3          # gentle long runs: 2 / 1 ms (self-error still enters the floor)
    n1 = int(round(T / ref_step / nout)) * nout
    ref1 = N.rk4(y0, P, T, n1, nout)
    ref2 = N.rk4(y0, P, T, 2 * n1, nout)
    lat = 'lat<5' if abs(pva.lat) < 5 else 'lat>75' if abs(pva.lat) > 75 else 'lat_mid'
    ctx.label('hemi=' + ('N' if pva.lat >= 0 else 'S') + ('E' if pva.lon >= 0 else 'W'), lat, f'type={stype}', f'h={h}', f'T={T}', 't0=0' if t0 == 0 else 't0!=0',
              'speed=' + ('0' if case['pva']['speed'] == 0 else '<30' if case['pva']['speed'] < 30 else '>=30'),
              'alt=' + ('<1km' if pva.alt < 1000 else '>=1km'), 'pitch>85' if abs(pva.pitch) > 85 else 'pitch<=85')
    spd = np.linalg.norm(ref2[:, 3:6], axis=1).max()
    long_run = T > 300
    alt_lo, alt_hi, vmax = (-2e5, 2e6, 5000.0) if long_run else (-5000.0, 60000.0, 1500.0)   # the unstable vertical channel wanders far in 5064 s
    if np.abs(ref2[:, 0]).max() > 88 * W.D2R or ref2[:, 2].min() < alt_lo or ref2[:, 2].max() > alt_hi or spd > vmax:
        ctx.inconclusive['left_domain'] += 1
        return
    tr_ref1 = pd.DataFrame({'lat': ref1[:, 0] / W.D2R, 'lon': ref1[:, 1] / W.D2R, 'alt': ref1[:, 2], 'VN': ref1[:, 3], 'VE': ref1[:, 4], 'VD': ref1[:, 5]})
    rph1 = ROT.rph_from_dcm(N.dcm_from_quat(ref1[:, 6:10]))
    tr_ref1['roll'], tr_ref1['pitch'], tr_ref1['heading'] = rph1[:, 0], rph1[:, 1], rph1[:, 2]
    referr = state_distance(tr_ref1, ref2)
    # levels h, h/2, h/4 (and h/8 up to 300 s).  The error is a sum of terms of different orders in h (the Coriolis/transport
    # terms are advanced with first-order accuracy, the rest with second order) which can cancel at one particular h, so
    # neither |X_h - X_h/2| nor err(h/2)/err(h) is meaningful at a single pair of levels (seed-14 false alarm, DESIGN 9.3):
    #   rule 1  err(h_k) <= 4 * max(change(h_k, h_k/2), change(h_k/2, h_k/4)) + floor
    #   rule 2  err(finest) <= 0.9 * max(err(coarser levels)) + floor      (two-term worst case: 0.875 with 3, 0.53 with 4 levels)
    nlev = 4 if T <= 300 else 3
    layout = case['sub'] % 4 if 't0' in case else 0          # (cases saved before the layouts existed replay as they ran)
    ctx.label(f'imu_column_layout={layout if layout < 3 else 0}')
    runs = [sut_run(ctx, pva, P, T, h / 2 ** k, stype, nout, t0, layout) for k in range(nlev)]
    ctx.check(all(np.all(np.isfinite(r.values)) for r in runs), 'not_finite', '')
    errs = [state_distance(r, ref2) for r in runs]
    chg = [table_distance(runs[k], runs[k + 1]) for k in range(nlev - 1)]
    eh, eh2, d = errs[0], errs[1], chg[0]
    # accumulated float64 rounding is amplified by the unstable vertical channel (time constant sqrt(R/2g) ~ 570 s):
    # x cosh(T/570) for position and velocity (x1 at 300 s, x4 at 1200 s, x3600 at one Schuler period)
    amp_v = float(np.cosh(T * np.sqrt(2 * 9.8 / 6.37e6)))
    floor = FLOOR * np.array([amp_v, amp_v, max(1.0, T / 300.0)]) + 16 * referr
    info = (f'pva={pva.values.tolist()} type={stype} h={h} T={T} t0={t0} rate_amp={wamp:.3g} force_amp={famp:.3g}; '
            f'err by level={[e.tolist() for e in errs]} change by level={[c.tolist() for c in chg]} ref_self_error={referr.tolist()}')
    lim1 = None
    for k in range(nlev - 2):
        lim = 4 * np.maximum(chg[k], chg[k + 1]) + floor
        if k == 0:
            lim1 = lim
        for g in range(3):
            ctx.stat(f'err_over_4x_halving_change_{NAMES[g]}', errs[k][g] / lim[g])
            ctx.check(errs[k][g] <= lim[g], f'non_vanishing_error:{NAMES[g]}',
                      lambda: f'{NAMES[g]} error {errs[k][g]:.3e} at h/{2 ** k} exceeds 4 x halving change + floor {floor[g]:.2e}: {info}')
    lim2 = 0.9 * np.max(errs[:-1], axis=0) + floor
    for g in range(3):
        ctx.stat(f'err_finest_over_0.9max_coarser_{NAMES[g]}', errs[-1][g] / lim2[g])
        ctx.check(errs[-1][g] <= lim2[g], f'no_convergence:{NAMES[g]}',
                  lambda: f'{NAMES[g]} error at the finest level {errs[-1][g]:.3e} not below 0.9 x the largest coarser-level error + floor: {info}')
    disc = lim1[0] < 1.0 and lim1[1] < 0.01 and lim1[2] < 1e-5
    if disc:
        ctx.label('discriminating')
    w_dirs = P[:3, :case['nharm'], 0]
    three_axis = np.all(np.abs(w_dirs).sum(axis=1) > 0) and case['nharm'] >= 1 and wamp * T > 0.05
    ctx.mark_nontrivial(bool(three_axis and case['pva']['speed'] > 0 and disc))


def schuler_strategy():
    """Long horizons up to a Schuler period (5064 s), gentle signals, coarse sampling."""
    return st.fixed_dictionaries({
        'pva': gen.pva_strategy(max_lat=80.0, max_pitch=60.0, max_speed=100.0),
        'sensor_type': st.sampled_from(['rate', 'increment']),
        'h': st.sampled_from([0.01, 0.02, 0.05]),
        'T': st.sampled_from([1200.0, 1200.0, 5064.0]),
        'nharm': st.integers(1, 2),
        'wamp_exp': st.floats(-2.0, 0.0),
        'famp_exp': st.floats(-1.0, 1.0),
        'sub': st.integers(0, 2 ** 31 - 1),
    })


CLAUSES = [
    Clause('convergence', case_strategy, run_convergence, quick=(64, 8), thorough=(2400, 16), shrink_quick=False),
    Clause('schuler', schuler_strategy, run_convergence, quick=(4, 4), thorough=(96, 16), shrink_quick=False),
]


def selftest():
    N.selftest()


def warmup():
    from . import c02
    c02.warmup()
