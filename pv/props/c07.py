"""C07 - Kalman correction is the exact Bayesian posterior with whitened innovation.

Oracle: 60-digit mpmath Gaussian conditioning (pv/ref/lingauss.py), covariance form,
cross-checked against the information form for invertible P.
"""
import numpy as np
from hypothesis import strategies as st

from ..core import Clause
from ..ref import lingauss as lg
from ..tol import EPS, bits_equal

PROPERTY = 'C07'
RULE = ('Cases: (n states 1..20, m observations 1..6) drawn directly; prior covariance '
        'P=U diag(spectrum) U^T from classes {well, cond 1e4/1e8/1e10, rank-deficient, '
        'diagonal, INS-like block scales}; H from {dense, selection rows, rank-deficient, '
        'zero row, scaled 1e+-4}; R=LL^T dense or diagonal with scale 1e-8..1e8 relative to '
        'H P H^T; x, z arbitrary; bulk numbers expanded from an integer sub-seed that is part '
        'of the case. Oracle: 60-digit mpmath conditioning. Non-trivial = n>=3, m>=2, S has '
        'off-diagonal entries, and relative tolerance on P+ <= 1e-6 (well-posed enough to see '
        'a missing K R K^T or transposed factor); distinct by SHA-1 of the case.')
ASSUMPTIONS = ['IEEE-754 binary64; mpmath 60-digit arithmetic is exact for the purpose',
               'tolerances: c*eps*(norm model) with c fixed in code, calibrated >=5x margin',
               'cond(S) <= 1e12 (generator constructs R relative to HPH^T); others inconclusive']

P_CLASSES = ['well', 'c1e4', 'c1e8', 'c1e10', 'rankdef', 'diag', 'ins']
H_CLASSES = ['dense', 'select', 'rankdef', 'zerorow', 'scaled_up', 'scaled_down']
R_CLASSES = ['dense', 'diag']


def case_strategy(min_m=1):
    return st.fixed_dictionaries({
        'n': st.integers(1, 20),
        'm': st.integers(min_m, 6),
        'pclass': st.sampled_from(P_CLASSES),
        'hclass': st.sampled_from(H_CLASSES),
        'rclass': st.sampled_from(R_CLASSES),
        'rexp': st.integers(-8, 8),
        'pexp': st.integers(-6, 6),
        'kdef': st.integers(1, 3),
        'zmode': st.sampled_from(['consistent', 'arbitrary', 'zero']),
        'store': st.sampled_from(['c', 'c', 'fortran', 'views', 'int']),
        'xmode': st.sampled_from(['random', 'random', 'zero']),      # an exactly zero prior mean is what the feedback filter passes
        'sub': st.integers(0, 2 ** 31 - 1),
    })


def _orth(rng, n):
    q, r = np.linalg.qr(rng.randn(n, n))
    return q * np.sign(np.diag(r))


def build(case):
    rng = np.random.RandomState(case['sub'])
    n, m = case['n'], case['m']
    pc = case['pclass']
    U = np.eye(n) if pc == 'diag' else _orth(rng, n)
    if pc in ('well', 'diag'):
        lam = 10.0 ** rng.uniform(-1, 1, n)
    elif pc in ('c1e4', 'c1e8', 'c1e10'):
        c = {'c1e4': 4, 'c1e8': 8, 'c1e10': 10}[pc]
        lam = 10.0 ** (-c * rng.uniform(0, 1, n))
        lam[0] = 1.0
        if n > 1:
            lam[-1] = 10.0 ** -c
    elif pc == 'rankdef':
        lam = 10.0 ** rng.uniform(-1, 1, n)
        k = min(case['kdef'], n)
        lam[rng.permutation(n)[:k]] = 0.0
    elif pc == 'ins':
        scales = np.array([1e2, 1e2, 1e2, 1.0, 1.0, 1.0, 1e-3, 1e-3, 1e-2] +
                          [1e-5] * 3 + [1e-3] * 3 + [1e-4] * 5)[:n]
        D = np.diag(scales)
        A = _orth(rng, n)
        C = A @ np.diag(rng.uniform(0.05, 1, n)) @ A.T   # correlation-like SPD
        P = D @ C @ D
        lam = None
    if pc != 'ins':
        P = (U * lam) @ U.T
    P = 0.5 * (P + P.T) * 10.0 ** case['pexp']

    hc = case['hclass']
    if hc == 'select':
        idx = rng.randint(0, n, m)
        H = np.zeros((m, n))
        H[np.arange(m), idx] = 1.0
        if len(set(idx)) < m:
            pass  # duplicated selection rows -> rank-deficient H, allowed
    else:
        H = rng.randn(m, n)
        if hc == 'rankdef' and m >= 2:
            H[-1] = H[0] * rng.uniform(-2, 2)
        elif hc == 'zerorow':
            H[rng.randint(m)] = 0.0
        elif hc == 'scaled_up':
            H *= 1e4
        elif hc == 'scaled_down':
            H *= 1e-4
    S0 = H @ P @ H.T
    s0 = np.trace(S0) / m
    if not s0 > 0:
        s0 = 1.0
    if case['rclass'] == 'diag':
        L = np.diag(rng.uniform(0.3, 1.5, m))
    else:
        L = np.tril(rng.randn(m, m) * 0.5)
        L[np.diag_indices(m)] = rng.uniform(0.5, 1.5, m)
    R = L @ L.T
    R = 0.5 * (R + R.T) * (s0 * 10.0 ** case['rexp'] / (np.trace(R) / m))
    x = rng.randn(n) * np.sqrt(np.maximum(np.diag(P), 1e-300)) * 3
    if case.get('xmode', 'random') == 'zero':
        x = np.zeros(n)
    if case['zmode'] == 'consistent':
        S = S0 + R
        z = H @ x + np.linalg.cholesky(0.5 * (S + S.T) + 1e-300 * np.eye(m)) @ rng.randn(m)
    elif case['zmode'] == 'zero':
        z = np.zeros(m)
    else:
        z = rng.randn(m) * 10.0 ** rng.uniform(-3, 3)
    st_ = case.get('store', 'c')
    if st_ == 'int':              # integer-typed arguments wherever the values are whole numbers (selection H, counts as
        z = np.round(z).astype(np.int64)      # observations, an all-zero prior mean): same values, different dtype
        if np.array_equal(H, np.round(H)):
            H = H.astype(np.int64)
        if not x.any():
            x = x.astype(np.int64)
    if st_ == 'fortran':          # same values, column-major storage
        P, H, R = np.asfortranarray(P), np.asfortranarray(H), np.asfortranarray(R)
    elif st_ == 'views':          # same values, non-contiguous views into larger buffers
        def view2(a):
            big = np.full((2 * a.shape[0], 2 * a.shape[1]), np.nan)
            big[::2, ::2] = a
            return big[::2, ::2]

        def view1(a):
            big = np.full(2 * len(a), np.nan)
            big[::2] = a
            return big[::2]
        x, z, P, H, R = view1(x), view1(z), view2(P), view2(H), view2(R)
    return x, P, z, H, R


def norm2(a):
    a = np.asarray(a, float)
    if a.ndim == 1:
        return float(np.linalg.norm(a))
    return float(np.linalg.norm(a, 2)) if a.size else 0.0


def tolerances(x, P, z, H, R, K, S, nu, c=8.0):
    """Rounding model of a float64 Joseph-form update around the exact (mp) quantities."""
    n, m = len(x), len(z)
    ev = np.linalg.eigvalsh(0.5 * (S + S.T))
    lmin, lmax = max(ev[0], 1e-300), ev[-1]
    condS = lmax / lmin
    nK, nH, nP, nR = norm2(K), norm2(H), norm2(P), norm2(R)
    # S = H P H' + R is formed from terms of size |H|^2 |P|: when H is nearly orthogonal to the dominant eigenvectors of P
    # the products cancel and S carries an absolute error eps |H|^2 |P| >> eps |S| (found by the thorough tier: n=2, m=1,
    # cond P = 1e4, error 110 eps). The effective conditioning of everything solved with S is therefore
    kappa = max(condS, (nH ** 2 * nP + nR) / lmin)
    relK = c * EPS * (n + m) * kappa
    nU = 1.0 + nK * nH
    e_norm = norm2(z - H @ x)
    de = EPS * (n + 2) * (norm2(z) + nH * norm2(x))
    tol_x = relK * nK * e_norm + c * EPS * (n + m) * (norm2(x) + nK * e_norm) + c * nK * de
    tol_P = c * EPS * (n + m) * (nU ** 2 * nP + nK ** 2 * nR) + (relK * nK) ** 2 * lmax
    tol_nu = relK * norm2(nu) + c * de / np.sqrt(lmin) + c * EPS * m
    return tol_x, tol_P, tol_nu, condS


def _labels(ctx, case, condS):
    ctx.label(f"n={'1-2' if case['n'] < 3 else '3-8' if case['n'] <= 8 else '9-20'}",
              f"m={case['m']}", f"P={case['pclass']}", f"H={case['hclass']}",
              f"R={case['rclass']}", f"rexp={'<0' if case['rexp'] < 0 else '>=0'}",
              f"condS={'<1e4' if condS < 1e4 else '<1e8' if condS < 1e8 else '>=1e8'}", f"store={case.get('store', 'c')}",
              f"x={case.get('xmode', 'random')}")


def run_posterior(case, ctx):
    from pyins import kalman
    x, P, z, H, R = build(case)
    snap = [a.copy() for a in (x, P, z, H, R)]
    xr, Pr, nur, K, S = lg.posterior_mp(x, P, z, H, R)
    tol_x, tol_P, tol_nu, condS = tolerances(x, P, z, H, R, K, S, nur)
    _labels(ctx, case, condS)
    if condS > 1e12:
        ctx.inconclusive['condS>1e12'] += 1
        return
    xs, Ps, nus = ctx.sut(kalman.correct, x, P, z, H, R)
    # (v) purity
    for name, a, b in zip('xPzHR', (x, P, z, H, R), snap):
        ctx.check(bits_equal(a, b), f'input_modified:{name}', 'kalman.correct changed its input')
    ctx.check(xs.shape == x.shape and Ps.shape == P.shape and nus.shape == z.shape,
              'shape', f'{xs.shape} {Ps.shape} {nus.shape}')
    ex = np.abs(xs - xr).max()
    eP = np.abs(Ps - Pr).max()
    en = np.abs(nus - nur).max()
    ctx.stat('mean', ex / tol_x)
    ctx.stat('cov', eP / tol_P)
    ctx.stat('innovation', en / tol_nu)
    ctx.check(ex <= tol_x, 'posterior_mean', lambda: f'|x+-ref|={ex:.3e} tol={tol_x:.3e}')
    ctx.check(eP <= tol_P, 'posterior_cov', lambda: f'|P+-ref|={eP:.3e} tol={tol_P:.3e}')
    ctx.check(en <= tol_nu, 'innovation', lambda: f'|nu-ref|={en:.3e} tol={tol_nu:.3e}')
    # information form (self-check of the oracle + the stated equality), invertible P only
    if case['pclass'] in ('well', 'diag', 'c1e4') and case['n'] <= 10:
        xi, Pi = lg.posterior_info_mp(x, P, z, H, R)
        if np.abs(Pi - Pr).max() > 1e-25 * (1 + norm2(P)) * np.linalg.cond(P) ** 2:
            raise AssertionError('mp covariance and information forms disagree')
        ctx.label('info_form_checked')
    # (ii) symmetric, PSD, not larger than the prior
    asym = np.abs(Ps - Ps.T).max()
    ctx.stat('asym', asym / tol_P)
    ctx.check(asym <= tol_P, 'asymmetric', lambda: f'|P+-P+^T|={asym:.3e} tol={tol_P:.3e}')
    n = len(x)
    Psym = 0.5 * (Ps + Ps.T)
    emin = np.linalg.eigvalsh(Psym)[0]
    ctx.check(emin >= -tol_P * n, 'not_psd', lambda: f'eigmin(P+)={emin:.3e} tol={tol_P * n:.3e}')
    dmin = np.linalg.eigvalsh(0.5 * (P + P.T) - Psym)[0]
    ctx.check(dmin >= -tol_P * n, 'larger_than_prior',
              lambda: f'eigmin(P-P+)={dmin:.3e} tol={tol_P * n:.3e}')
    # (iii) whitening identities, directly
    Lf = np.linalg.cholesky(0.5 * (S + S.T))
    e = z - H @ x
    r1 = np.abs(Lf @ nus - e).max()
    t1 = tol_nu * norm2(Lf) + 16 * EPS * (norm2(e) + 1e-300)
    ctx.check(r1 <= t1, 'whitening', lambda: f'|L nu - e|={r1:.3e} tol={t1:.3e}')
    offdiag = np.abs(S - np.diag(np.diag(S))).max() > 1e-12 * np.abs(S).max()
    ctx.mark_nontrivial(case['n'] >= 3 and case['m'] >= 2 and offdiag
                        and tol_P <= 1e-6 * max(norm2(P), 1e-300))


def blocks_strategy():
    return st.fixed_dictionaries({
        'base': case_strategy(min_m=2),
        'cuts': st.lists(st.integers(1, 5), min_size=1, max_size=3, unique=True),
        'perm_seed': st.integers(0, 10 ** 6),
    })


def run_order(case, ctx):
    """Sequential processing of independent blocks in any order == joint processing."""
    from pyins import kalman
    base = dict(case['base'])
    x, P, z, H, R = build(base)
    m = len(z)
    cuts = sorted(c for c in set(case['cuts']) if c < m)
    if not cuts:
        cuts = [1]
    bounds = [0] + cuts + [m]
    blocks = [list(range(bounds[i], bounds[i + 1])) for i in range(len(bounds) - 1)]
    # make R block diagonal w.r.t. the partition
    Rb = np.zeros_like(R)
    for b in blocks:
        Rb[np.ix_(b, b)] = R[np.ix_(b, b)]
    R = Rb
    order = list(np.random.RandomState(case['perm_seed']).permutation(len(blocks)))
    perm = [i for k in order for i in blocks[k]]
    # joint reference for the permuted stacking (so that innovations are comparable)
    zj, Hj, Rj = z[perm], H[perm], R[np.ix_(perm, perm)]
    xr, Pr, nur, K, S = lg.posterior_mp(x, P, zj, Hj, Rj)
    tol_x, tol_P, tol_nu, condS = tolerances(x, P, zj, Hj, Rj, K, S, nur)
    _labels(ctx, base, condS)
    ctx.label(f'blocks={len(blocks)}', 'permuted' if order != sorted(order) else 'identity_order')
    if condS > 1e10:
        ctx.inconclusive['condS>1e10'] += 1
        return
    xj, Pj, nuj = ctx.sut(kalman.correct, x, P, zj, Hj, Rj)
    xs, Ps = x, P
    nus = []
    tx, tP, tn = tol_x, tol_P, tol_nu
    for k in order:
        b = blocks[k]
        # per-step tolerance from the exact step quantities
        _, _, nu_k, K_k, S_k = lg.posterior_mp(xs, 0.5 * (Ps + Ps.T), z[b], H[b], R[np.ix_(b, b)])
        a, bb, cc, cs = tolerances(xs, Ps, z[b], H[b], R[np.ix_(b, b)], K_k, S_k, nu_k)
        # an error already present in (xs, Ps) propagates with gain (1+|K||H|)
        gain = (1.0 + norm2(K_k) * norm2(H[b]))
        lmin_k = max(np.linalg.eigvalsh(0.5 * (S_k + S_k.T))[0], 1e-300)
        nHb = norm2(H[b])
        # innovation of this step sees the errors accumulated so far in (xs, Ps)
        tn += cc + tx * nHb / lmin_k ** 0.5 + tP * nHb ** 2 / lmin_k * (norm2(nu_k) + 1.0)
        tx = tx * gain + a + tP * nHb / lmin_k ** 0.5 * (norm2(nu_k) + 1.0)
        tP = tP * gain ** 2 + bb
        xs, Ps, nu = ctx.sut(kalman.correct, xs, Ps, z[b], H[b], R[np.ix_(b, b)])
        nus.append(nu)
    nus = np.concatenate(nus)
    ex = max(np.abs(xs - xr).max(), np.abs(xs - xj).max())
    eP = max(np.abs(Ps - Pr).max(), np.abs(Ps - Pj).max())
    en = max(np.abs(nus - nur).max(), np.abs(nus - nuj).max())
    ctx.stat('seq_mean', ex / tx)
    ctx.stat('seq_cov', eP / tP)
    ctx.stat('seq_innovation', en / tn)
    ctx.check(ex <= tx, 'order_mean', lambda: f'sequential vs joint mean {ex:.3e} tol={tx:.3e} order={order}')
    ctx.check(eP <= tP, 'order_cov', lambda: f'sequential vs joint cov {eP:.3e} tol={tP:.3e} order={order}')
    ctx.check(en <= tn, 'order_innovation',
              lambda: f'sequential vs joint innovation {en:.3e} tol={tn:.3e} order={order}')
    ctx.mark_nontrivial(base['n'] >= 3 and len(blocks) >= 2 and order != sorted(order)
                        and tP <= 1e-6 * max(norm2(P), 1e-300))


def scaled_strategy():
    return st.fixed_dictionaries({
        'base': case_strategy(),
        'mode': st.sampled_from(['spread', 'two_level', 'z_only', 'x_only']),
        'sseed': st.integers(0, 10 ** 6),
    })


def run_scaled(case, ctx):
    """Badly SCALED but otherwise ordinary problems: states and observations rescaled by powers of two (state sigmas and
    measurement sigmas over 2^-13..2^13 ~ 1e-4..1e4, i.e. R variances over ~1e-8..1e8 inside ONE correction, cond(S) up to 1e16+).
    The posterior of the rescaled problem is the rescaled posterior; multiplication by powers of two is exact, so the
    tolerance of the well-scaled problem applies unchanged (x4 for implementations that are not exactly scale-equivariant)."""
    from pyins import kalman
    base = dict(case['base'])
    x, P, z, H, R = (np.array(a, dtype=float) for a in build(base))
    n, m = len(x), len(z)
    xr, Pr, nur, K, S = lg.posterior_mp(x, P, z, H, R)
    tol_x, tol_P, tol_nu, condS = tolerances(x, P, z, H, R, K, S, nur)
    if condS > 1e10:
        ctx.inconclusive['condS>1e10'] += 1
        return
    rng = np.random.RandomState(case['sseed'])
    mode = case['mode']
    if mode == 'two_level':
        ex = np.where(rng.rand(n) < 0.5, -13, 13)
        ez = np.where(np.arange(m) % 2 == rng.randint(2), -13, 13)
    else:
        ex = rng.randint(-13, 14, n)
        ez = rng.randint(-13, 14, m)
    if mode == 'z_only':
        ex = np.zeros(n, int)
    if mode == 'x_only':
        ez = np.zeros(m, int)
    Dx, Dz = 2.0 ** ex, 2.0 ** ez
    x2, P2, z2 = Dx * x, P * np.outer(Dx, Dx), Dz * z
    H2, R2 = H * np.outer(Dz, 1.0 / Dx), R * np.outer(Dz, Dz)
    S2 = H2 @ P2 @ H2.T + R2
    ev = np.linalg.eigvalsh(0.5 * (S2 + S2.T))
    cond2 = ev[-1] / max(ev[0], 1e-300) if ev[0] > 0 else np.inf
    ctx.label(f'mode={mode}', f"m={m}", 'cond(S scaled)=' + ('<1e8' if cond2 < 1e8 else '<1e15' if cond2 < 1e15 else '>=1e15'))
    snap = [a.copy() for a in (x2, P2, z2, H2, R2)]
    xs2, Ps2, nus = ctx.sut(kalman.correct, x2, P2, z2, H2, R2)
    for name, a, b in zip('xPzHR', (x2, P2, z2, H2, R2), snap):
        ctx.check(bits_equal(a, b), f'input_modified:{name}', 'kalman.correct changed its input')
    xs, Ps = xs2 / Dx, Ps2 / np.outer(Dx, Dx)
    ex_, eP, en = np.abs(xs - xr).max(), np.abs(Ps - Pr).max(), np.abs(nus - nur).max()
    ctx.stat('scaled_mean', ex_ / (4 * tol_x))
    ctx.stat('scaled_cov', eP / (4 * tol_P))
    ctx.stat('scaled_innovation', en / (4 * tol_nu))
    info = f'state scale exponents {ex.tolist()} observation scale exponents {ez.tolist()} cond(S) {cond2:.2e}'
    ctx.check(ex_ <= 4 * tol_x, 'scaled_posterior_mean', lambda: f'|x+ - ref| = {ex_:.3e} (well-scaled units) tol {4 * tol_x:.3e}; {info}')
    ctx.check(eP <= 4 * tol_P, 'scaled_posterior_cov', lambda: f'|P+ - ref| = {eP:.3e} (well-scaled units) tol {4 * tol_P:.3e}; {info}')
    ctx.check(en <= 4 * tol_nu, 'scaled_innovation', lambda: f'|nu - ref| = {en:.3e} tol {4 * tol_nu:.3e}; {info}')
    ctx.mark_nontrivial(m >= 2 and cond2 >= 1e12 and tol_P <= 1e-6 * max(norm2(P), 1e-300))


CLAUSES = [
    Clause('scaled', scaled_strategy, run_scaled, quick=(240, 8), thorough=(16000, 16),
           doc='power-of-two rescaling of states / observations (badly scaled S): rescaled posterior within the well-scaled tolerance'),
    Clause('posterior', case_strategy, run_posterior, quick=(480, 8), thorough=(32000, 16),
           doc='mean/cov/innovation == mp reference; symmetric PSD <= prior; whitening; purity'),
    Clause('order', blocks_strategy, run_order, quick=(160, 8), thorough=(8000, 16),
           doc='sequential block processing in any order == joint processing'),
]


def selftest():
    lg.selftest()
