"""C04 - INS error model is the linearisation of actual strapdown error growth.

Differential oracle against the REAL integrator in the library's own error coordinates
(pv/errcoords.py): measured transition / input response by central differences vs the flow of
the model matrices; per-block tolerance = analytic bound of the neglected terms propagated
through the model + 4 x measured discretisation change + rounding floor.
"""
import numpy as np
import pandas as pd
from hypothesis import strategies as st

from ..core import Clause
from .. import gen, errcoords as EC
from ..ref import rot as ROT
from ..ref import wgs84 as W

PROPERTY = 'C04'
RULE = ('Cases: operating point |lat|<=80, alt 0..20 km, speed log-uniform 0..300 m/s (>=30 percent below 1 m/s: only there are '
        'the Earth-rate/position blocks larger than the neglected transport-rate terms), |pitch|<=80; increments realising '
        'constant body rate <=0.3 rad/s and specific force = gravity reaction + <=0.5 g at IMU dt in {2,5,10} ms; horizon T in '
        '{0.1,0.5,1,2} s; both altitude modes. Measured: central differences of the real integrator along all 9/7 error states '
        '(through correct_pva) and 6 sensor-error directions, errors read back with own geodesy/rotation algebra. Model: product '
        'of matrix exponentials of [F B; 0 0] dt along the nominal trajectory from InsErrorModel.system_matrices. Per 3x3 block: '
        '|measured - model|/T <= bound(neglected terms) + 4 |measured(dt) - measured(dt/2)|/T + floor. Non-trivial = at least one '
        'Earth-rate/position block (PHI/DR, DV/DR) whose tolerance is <= 0.2 of the block norm (the case can see a 20 percent error).')
ASSUMPTIONS = ['neglected-term bound N per block (transport-rate position dependence |V|(1+tan^2)/R^2, gravity gradient, Coriolis on '
               'the velocity-frame rotation) with constants calibrated >=5x above the measured residuals of the unchanged tree',
               'finite-difference steps 10 m / 0.1 m/s / 1e-4 rad / 1e-5 rad/s / 1e-3 m/s^2']

R0 = 6.37e6
OMEGA = 7.292115e-5
G0 = 9.8
INC = gen.INC_COLS


def case_strategy():
    return st.fixed_dictionaries({
        'lat': st.one_of(st.sampled_from([0.0, 80.0, -80.0, 45.0, -45.0]), st.floats(-80, 80)),
        'lon': st.floats(-180, 180),
        'alt': st.one_of(st.sampled_from([0.0, 20000.0]), st.floats(0, 20000)),
        'speed': st.one_of(st.sampled_from([0.0, 0.0, 0.1, 0.5]), st.floats(0, 1.0), st.floats(1.0, 30.0), st.floats(30.0, 300.0)),
        'vdir': st.lists(st.floats(-1, 1), min_size=3, max_size=3),
        'roll': st.floats(-180, 180), 'pitch': st.floats(-80, 80), 'heading': st.floats(-180, 180),
        'T': st.sampled_from([0.1, 0.5, 1.0, 2.0]),
        'dt': st.sampled_from([0.002, 0.005, 0.01]),
        'with_altitude': st.booleans(),
        'sub': st.integers(0, 2 ** 31 - 1),
    })


def make_increments(case, pva):
    rng = np.random.RandomState(case['sub'])
    C = np.asarray(ROT.dcm_from_rph(pva[EC.RPH].values.astype(float)), float)
    om = rng.uniform(-0.3, 0.3, 3)
    g = float(W.gravity(pva.lat, pva.alt))
    f_n = np.array([rng.uniform(-5, 5), rng.uniform(-5, 5), -g + (rng.uniform(-3, 3) if case['with_altitude'] else 0.0)])
    return om, C.T @ f_n


def inc_table(om, fb, dt, n, level=False, t0=0.0, sign=None):
    """Constant body rate; specific force constant in the body frame, or (level=True, used in the no-altitude mode, whose
    model presumes vertical force balance) constant in the navigation frame: f_b(t) = exp(-om t) fb at mid-interval.
    dt may be a scalar (n equal intervals) or an array of n interval lengths."""
    dts = np.full(n, dt) if np.isscalar(dt) else np.asarray(dt, float)
    t = np.cumsum(dts)
    # sign (n values +-1): the body turns back and forth about the fixed axis om (rate om * sign per row), so that the
    # accumulated angle about that axis is phi(t) = int sign dt instead of t
    sg = np.ones(n) if sign is None else np.asarray(sign, float)
    phi = np.cumsum(sg * dts)
    if level:
        pm = phi - 0.5 * sg * dts
        E = np.asarray(ROT.exp_so3(-om[None, :] * pm[:, None], float), float)
        dv = np.einsum('nij,j->ni', E, fb) * dts[:, None]
    else:
        dv = fb[None, :] * dts[:, None]
    return pd.DataFrame(np.column_stack([dts, om[None, :] * (sg * dts)[:, None], dv]),
                        index=pd.Index(t0 + t, name='time'), columns=INC)


def to_state(x9, wa):
    if wa:
        return x9
    return np.array([x9[0], x9[1], x9[3], x9[4], x9[6], x9[7], x9[8]])


def measure(ctx, em, pva, om, fb, dt, T, wa):
    """Returns (Phi_meas (n,n), Gam_meas (n,6), nominal trajectory) at IMU interval dt."""
    from pyins import strapdown
    n_steps = int(round(T / dt))
    inc = inc_table(om, fb, dt, n_steps, level=not wa)
    ns = 9 if wa else 7

    def run(p, table):
        return strapdown.Integrator(p, wa).integrate(table)
    nom = ctx.sut(run, pva, inc)
    last = nom.iloc[-1]
    eps = np.array([10, 10, 10, 0.1, 0.1, 0.1, 1e-4, 1e-4, 1e-4]) if wa else np.array([10, 10, 0.1, 0.1, 1e-4, 1e-4, 1e-4])
    Phi = np.empty((ns, ns))
    for i in range(ns):
        x = np.zeros(ns)
        x[i] = eps[i]
        pp = ctx.sut(em.correct_pva, pva, -x)
        pm = ctx.sut(em.correct_pva, pva, x)
        pp.name = pm.name = 0.0
        ep = EC.internal_error(run(pp, inc).iloc[-1], last)
        e_m = EC.internal_error(run(pm, inc).iloc[-1], last)
        Phi[:, i] = to_state((ep - e_m) / (2 * eps[i]), wa)
    es = np.array([1e-5] * 3 + [1e-3] * 3)
    Gam = np.empty((ns, 6))
    cols = INC[1:]
    for i in range(6):
        d = np.zeros(6)
        d[i] = es[i]
        ip = inc.copy()
        im = inc.copy()
        ip[cols] += d * dt
        im[cols] -= d * dt
        ep = EC.internal_error(run(pva, ip).iloc[-1], last)
        e_m = EC.internal_error(run(pva, im).iloc[-1], last)
        Gam[:, i] = to_state((ep - e_m) / (2 * es[i]), wa)
    return Phi, Gam, nom


def model_flow(ctx, em, nom, wa):
    from scipy.linalg import expm
    F, Bg, Ba = ctx.sut(em.system_matrices, nom)
    ns = F.shape[-1]
    t = np.asarray(nom.index, float)
    Phi = np.eye(ns)
    Gam = np.zeros((ns, 6))
    for k in range(len(t) - 1):
        Fk = 0.5 * (F[k] + F[k + 1])
        Bk = 0.5 * (np.hstack([Bg[k], Ba[k]]) + np.hstack([Bg[k + 1], Ba[k + 1]]))
        A = np.zeros((ns + 6, ns + 6))
        A[:ns, :ns] = Fk
        A[:ns, ns:] = Bk
        E = expm(A * (t[k + 1] - t[k]))
        Gam = E[:ns, :ns] @ Gam + E[:ns, ns:]
        Phi = E[:ns, :ns] @ Phi
    return Phi, Gam, F, Bg, Ba


def groups(wa):
    return ([0, 1, 2], [3, 4, 5], [6, 7, 8]) if wa else ([0, 1], [2, 3], [4, 5, 6])


def block_norms(M, rows, cols):
    return np.array([[np.abs(M[np.ix_(r, c)]).max() for c in cols] for r in rows])


# Neglected-term bound (per second) of the modified phi-angle model as implemented, per block.
# v = speed, a = v/R (1+|tan lat|) transport/curvature rate, W = Earth rate.  Constants calibrated (x5 margin).
def neglected(v, lat, wa):
    tl = 1 + abs(np.tan(np.radians(lat)))
    a = v / R0 * tl
    N = np.array([
        # d/dDR                                   d/dDV                     d/dPHI
        [C_N[0, 0] * a + 1e-9,                    C_N[0, 1] * (a + 1e-9),   C_N[0, 2] * v * (a + OMEGA)],               # DR
        [C_N[1, 0] * (v * (OMEGA + a) * tl / R0 + G0 / R0 * 2e-2), C_N[1, 1] * a + 1e-9, C_N[1, 2] * v * (OMEGA + a) + 1e-7],  # DV
        [C_N[2, 0] * (v / R0 ** 2 * tl ** 2) + 2e-14, C_N[2, 1] * (a / max(v, 1.0) * 1e-1 + 1e-12), C_N[2, 2] * a],   # PHI
    ])
    return N


# measured max of (residual - 4 x discretisation change - floor)/form over 1152 random cases: 0.28, 0.0098, 0 / 0.088, 0.0014, 0.50 / 0.27, 2e-4, 0
# Blocks whose measured residual never exceeded 4 x discretisation change + floor (DR/PHI, PHI/PHI: max 0.28 / 0.37 of it) get NO
# neglected-term allowance; the others 5 x their measured excess. (A first version allowed |V|/R in PHI/PHI: exactly the size of the
# R @ V_skew term, whose sign error was therefore invisible - found by a seeded change.)
C_N = np.array([[1.5, 0.05, 0.0], [0.5, 0.01, 2.5], [1.5, 0.002, 0.0]])


def propagate_bound(Nb, Fb, T, terms=6):
    """Block-norm bound of Phi_true - Phi_model over T given per-second neglected bound Nb and |F| block norms Fb (3x3)."""
    s = np.array([3, 3, 3.0])        # block widths enter products of max-norms
    out = np.zeros((3, 3))
    P = [np.eye(3)]
    for _ in range(terms):
        P.append(P[-1] @ (Fb * s[None, :]))
    fact = 1.0
    for m in range(1, terms + 1):
        fact *= m
        acc = np.zeros((3, 3))
        for p in range(m):
            acc += P[p] @ (Nb * s[None, :]) @ P[m - 1 - p]
        out += acc * T ** m / fact
    return out


def residuals(case, ctx):
    """Everything measured for one case (shared by the check and the calibration script)."""
    from pyins import error_model
    wa = case['with_altitude']
    pva = gen.to_pva({'lat': case['lat'], 'lon': case['lon'], 'alt': case['alt'], 'speed': case['speed'], 'vdir': case['vdir'],
                      'roll': case['roll'], 'pitch': case['pitch'], 'heading': case['heading']}, 0.0)
    if not wa:
        pva['VD'] = 0.0
    em = error_model.InsErrorModel(wa)
    om, fb = make_increments(case, pva)
    T, dt = case['T'], case['dt']
    Phi1, Gam1, nom = measure(ctx, em, pva, om, fb, dt, T, wa)
    Phi2, Gam2, nom2 = measure(ctx, em, pva, om, fb, dt / 2, T, wa)
    PhiM, GamM, F, Bg, Ba = model_flow(ctx, em, nom, wa)
    PhiM2, GamM2, _, _, _ = model_flow(ctx, em, nom2, wa)       # discretisation of the model flow itself
    rows = groups(wa)
    res_phi = block_norms(Phi1 - PhiM, rows, rows) / T
    chg_phi = (block_norms(Phi1 - Phi2, rows, rows) + block_norms(PhiM - PhiM2, rows, rows)) / T
    scols = ([0, 1, 2], [3, 4, 5])
    res_gam = block_norms(Gam1 - GamM, rows, scols) / T
    chg_gam = (block_norms(Gam1 - Gam2, rows, scols) + block_norms(GamM - GamM2, rows, scols)) / T
    Fb = block_norms(F[0], rows, rows)
    Bb = block_norms(np.hstack([Bg[0], Ba[0]]), rows, scols)
    # speed that enters the neglected terms: the largest speed along the nominal run
    v = float(np.linalg.norm(nom[EC.VEL].values.astype(float), axis=1).max())
    return dict(pva=pva, v=v, res_phi=res_phi, chg_phi=chg_phi, res_gam=res_gam, chg_gam=chg_gam, Fb=Fb, Bb=Bb, T=T, dt=dt, wa=wa,
                PhiM=PhiM)


GN = ('DR', 'DV', 'PHI')
FLOOR_PHI = 64 * np.array([[2e-10, 2e-8, 2e-5], [6e-15, 6e-13, 6e-10], [5e-17, 5e-15, 5e-12]])
FLOOR_GAM = 64 * np.array([[2e-4, 2e-6], [6e-9, 6e-11], [5e-11, 5e-13]])


def run_blocks(case, ctx):
    r = residuals(case, ctx)
    v, T, wa = r['v'], r['T'], r['wa']
    ctx.label('mode=3D' if wa else 'mode=2D', f'T={T}', f"dt={r['dt']}", 'speed=' + ('<1' if v < 1 else '<30' if v < 30 else '>=30'),
              'lat>60' if abs(case['lat']) > 60 else 'lat<=60')
    Nb = neglected(v, case['lat'], wa)
    bound = propagate_bound(Nb, r['Fb'], T) / T
    tol = bound + 4 * r['chg_phi'] + FLOOR_PHI / T * (1 + v)
    seen = False
    for i in range(3):
        for j in range(3):
            ratio = r['res_phi'][i, j] / tol[i, j]
            ctx.stat(f'd{GN[i]}/d{GN[j]}', ratio)
            ctx.check(r['res_phi'][i, j] <= tol[i, j], f'transition_block:{GN[i]}/{GN[j]}',
                      lambda: f'case={case}: measured vs model sensitivity of {GN[i]} to {GN[j]} differ by {r["res_phi"][i, j]:.3e}/s; '
                              f'tolerance {tol[i, j]:.3e} (neglected-term bound {bound[i, j]:.3e}, discretisation change {r["chg_phi"][i, j]:.3e}); '
                              f'model block norm {r["Fb"][i, j]:.3e}')
            if (i, j) in ((2, 0), (1, 0)) and tol[i, j] <= 0.2 * r['Fb'][i, j]:
                seen = True
                ctx.label(f'discriminating:{GN[i]}/{GN[j]}')
    # input response: gyro / accel coupling
    # neglected: the same N acting on the model response + nothing of its own; O(dt) discretisation measured by halving
    Gb = propagate_bound(Nb, r['Fb'], T) @ (r['Bb'] * 3) + 0
    tolg = Gb / T * T + 4 * r['chg_gam'] + FLOOR_GAM / T * (1 + v)
    for i in range(3):
        for j in range(2):
            nm = ('gyro', 'accel')[j]
            ratio = r['res_gam'][i, j] / tolg[i, j]
            ctx.stat(f'd{GN[i]}/d{nm}', ratio)
            ctx.check(r['res_gam'][i, j] <= tolg[i, j], f'coupling_block:{GN[i]}/{nm}',
                      lambda: f'case={case}: measured vs model response of {GN[i]} to a constant {nm} error differ by {r["res_gam"][i, j]:.3e}; '
                              f'tolerance {tolg[i, j]:.3e} (discretisation change {r["chg_gam"][i, j]:.3e}); model coupling norm {r["Bb"][i, j]:.3e}')
    ctx.mark_nontrivial(seen)


# ------------------------------------------------------------------------------------------ propagate_errors
def prop_strategy():
    return st.fixed_dictionaries({
        'lat': st.one_of(st.sampled_from([0.0, 80.0, -80.0, 45.0, -45.0]), st.floats(-80, 80)),
        'lon': st.floats(-180, 180),
        'alt': st.floats(0, 20000),
        'speed': st.one_of(st.sampled_from([0.0, 0.5]), st.floats(0, 30.0), st.floats(30.0, 300.0)),
        'vdir': st.lists(st.floats(-1, 1), min_size=3, max_size=3),
        'roll': st.floats(-180, 180), 'pitch': st.floats(-80, 80), 'heading': st.floats(-180, 180),
        'T': st.sampled_from([5.0, 20.0, 60.0]),
        'dt': st.sampled_from([0.02, 0.05]),
        'with_altitude': st.booleans(),
        'edir': st.lists(st.floats(-1, 1), min_size=15, max_size=15),
        'sub': st.integers(0, 2 ** 31 - 1),
        't0': st.sampled_from([0.0, 0.0, 500.0, -25.0]),          # the record's time origin (the motion is the same)
        'weave': st.sampled_from(['no', 'no', 'no', 'heading', 'heading', 'roll']),
    })


def expand_blocks(Nb, wa):
    rows = groups(wa)
    n = 9 if wa else 7
    M = np.zeros((n, n))
    for i, r in enumerate(rows):
        for j, c in enumerate(rows):
            M[np.ix_(r, c)] = Nb[i, j]
    return M


def run_propagate(case, ctx):
    """propagate_errors vs the actual difference of a perturbed and the nominal strapdown run."""
    from pyins import error_model, strapdown, sim
    from scipy.linalg import expm
    wa = case['with_altitude']
    t0 = case.get('t0', 0.0)
    pva = gen.to_pva({k: case[k] for k in ('lat', 'lon', 'alt', 'speed', 'vdir', 'roll', 'pitch', 'heading')}, t0)
    if not wa:
        pva['VD'] = 0.0
    weave = case.get('weave', 'no')
    if weave != 'no':          # the body weaves about its initial attitude, which sits exactly on the +-180 seam of heading or roll:
        pva[weave] = 180.0     # consecutive trajectory rows then lie on either side of the wrap again and again
    rng = np.random.RandomState(case['sub'])
    C = np.asarray(ROT.dcm_from_rph(pva[EC.RPH].values.astype(float)), float)
    om = rng.uniform(-0.05, 0.05, 3)
    g = float(W.gravity(pva.lat, pva.alt))
    f_n = np.array([rng.uniform(-1, 1), rng.uniform(-1, 1), -g])
    T, dt = case['T'], case['dt']
    n = int(round(T / dt))
    n -= n % 20
    if case['sub'] % 2:                    # irregular trajectory sampling (two rates: sub-sampling keeps the pattern)
        w = np.where(np.arange(n) < n // 2, 0.6, 1.4) * rng.uniform(0.9, 1.1, n)   # two sampling rates + jitter
        dts = dt * w
        ctx.label('sampling=irregular')
    else:
        dts = np.full(n, dt)
        ctx.label('sampling=uniform')
    sign = None
    if weave != 'no':
        m = 2 + case['sub'] % 5                      # rows per half-swing; the first swing is half as long (symmetric weave)
        sign = np.where(((np.arange(n) + m - m // 2) // m) % 2 == 0, 1.0, -1.0)
    inc = inc_table(om, C.T @ f_n, dts, n, level=True, t0=t0, sign=sign)
    inc_h = inc_table(om, C.T @ f_n, np.repeat(dts / 2, 2), 2 * n, level=True, t0=t0,
                      sign=None if sign is None else np.repeat(sign, 2))     # same motion at half the IMU interval
    ctx.label('t0=0' if t0 == 0 else 't0!=0', f'weave={weave}')
    nom = ctx.sut(strapdown.Integrator(pva, wa).integrate, inc)
    nom_h = strapdown.Integrator(pva, wa).integrate(inc_h)
    v = float(np.linalg.norm(nom[EC.VEL].values.astype(float), axis=1).max())
    ctx.label('mode=3D' if wa else 'mode=2D', f'T={T}', f'dt={dt}', 'speed=' + ('<1' if v < 1 else '<30' if v < 30 else '>=30'))
    if weave != 'no':
        ncross = int(np.sum(np.abs(np.diff(nom[weave].values)) > 180.0))
        ctx.label('wrap_crossings=' + ('0' if ncross == 0 else '1-9' if ncross < 10 else '>=10'))
    pmax = float(np.abs(nom['pitch'].values).max())
    if pmax > 82.0 or np.abs(nom['lat'].values).max() > 81.0 or v > 350.0:
        ctx.inconclusive['nominal_left_domain'] += 1       # the property is stated for |pitch|<=80, |lat|<=80, speed<=300
        return
    d = np.asarray(case['edir'], float)
    if np.abs(d).max() < 1e-2:
        d = np.linspace(-1, 1, 15)
    d = d / np.abs(d).max()
    e0 = d[:9] * np.array([10, 10, 10, 0.1, 0.1, 0.1, 0.05, 0.05, 0.05])
    ge = d[9:12] * 1e-5
    ae = d[12:15] * 1e-3
    if not wa:
        e0[2] = e0[5] = 0.0
    chk = np.arange(0, n + 1, n // 10)
    em = error_model.InsErrorModel(wa)
    # sensor errors: constant 3-vectors, or (sub % 3 == 0) specified per trajectory row and varying in time
    per_row = case['sub'] % 3 == 0
    t_rows = np.concatenate([[0.0], np.cumsum(dts)])
    t_half = np.concatenate([[0.0], np.cumsum(np.repeat(dts / 2, 2))])
    shape_t = (lambda t: 1.0 + 0.8 * np.sin(0.9 * t / max(T / 20.0, 1.0) + 0.4)) if per_row else (lambda t: np.ones_like(t))
    ctx.label('sensor_errors=per_row_time_varying' if per_row else 'sensor_errors=constant')
    F, Bg, Ba = em.system_matrices(nom)
    ns = F.shape[-1]
    out = {}
    for s in (1.0, 0.1):
        err = pd.Series(e0 * s, index=gen.ERR_COLS)
        start = ctx.sut(sim.perturb_pva, pva, err)
        start.name = t0
        ip = inc.copy()
        mid = 0.5 * (t_rows[1:] + t_rows[:-1])
        ip[INC[1:4]] += ge * s * (dts * shape_t(mid))[:, None]
        ip[INC[4:7]] += ae * s * (dts * shape_t(mid))[:, None]
        pert = ctx.sut(strapdown.Integrator(start, wa).integrate, ip)
        nsnap = nom.copy()
        if per_row:
            ge_arg = ge[None, :] * s * shape_t(t_rows)[:, None]
            ae_arg = ae[None, :] * s * shape_t(t_rows)[:, None]
        else:
            ge_arg, ae_arg = ge * s, ae * s
        gsnap = np.array(ge_arg, copy=True)
        lin, mod = ctx.sut(error_model.propagate_errors, nom, err, ge_arg, ae_arg, wa)
        ctx.check(nom.equals(nsnap) and np.array_equal(ge_arg, gsnap), 'input_modified', '')
        ctx.check(list(lin.columns) == gen.ERR_COLS and lin.index.equals(nom.index) and list(mod.columns) == em.states
                  and mod.index.equals(nom.index), 'schema', lambda: f'{list(lin.columns)} {list(mod.columns)}')
        if weave != 'no':
            # the same attitudes written without the seam (angles congruent modulo 360: 179.9, 180.2, 179.7 instead of 179.9, -179.8,
            # 179.7) are the same trajectory, so the model predicts the same errors; the halving-change tolerance below cannot see a
            # model that mishandles the seam, because sub-sampling the rows moves the crossings and the change absorbs the defect
            nom_u = nom.copy()
            nom_u[weave] = np.degrees(np.unwrap(np.radians(nom[weave].values)))
            lin_u, mod_u = ctx.sut(error_model.propagate_errors, nom_u, err, ge_arg, ae_arg, wa)
            for a_, b_, nm in ((lin_u, lin, 'trajectory error'), (mod_u, mod, 'model error')):
                d_ = np.abs(a_.values - b_.values).max()
                lim_ = 1e-9 * np.abs(b_.values).max() + 1e-12
                ctx.stat('seam_representation', d_ / lim_)
                ctx.check(d_ <= lim_, 'angle_representation_dependent',
                          lambda: f'case={case} scale={s}: predicted {nm} differs by {d_:.3e} (largest {np.abs(b_.values).max():.3e}) when {weave} is '
                                  f'written continuously across +-180 instead of wrapped')
        lin2, _ = ctx.sut(error_model.propagate_errors, nom.iloc[::2], err, ge_arg[::2] if per_row else ge_arg, ae_arg[::2] if per_row else ae_arg, wa)
        act = np.array([EC.output_difference(pert.iloc[k], nom.iloc[k]) for k in chk])
        iph = inc_h.copy()
        mid_h = 0.5 * (t_half[1:] + t_half[:-1])
        iph[INC[1:4]] += ge * s * (np.repeat(dts / 2, 2) * shape_t(mid_h))[:, None]
        iph[INC[4:7]] += ae * s * (np.repeat(dts / 2, 2) * shape_t(mid_h))[:, None]
        pert_h = strapdown.Integrator(start, wa).integrate(iph)
        act_h = np.array([EC.output_difference(pert_h.iloc[2 * k], nom_h.iloc[2 * k]) for k in chk])
        # the linear prediction along the half-interval nominal run as well: the prediction depends on the IMU interval through
        # the nominal trajectory it is evaluated on, which sub-sampling the rows does not show (seed-23 false alarm, DESIGN 9.3)
        if per_row:
            ge_h, ae_h = ge[None, :] * s * shape_t(t_half)[:, None], ae[None, :] * s * shape_t(t_half)[:, None]
        else:
            ge_h, ae_h = ge * s, ae * s
        lin_h, _ = error_model.propagate_errors(nom_h, err, ge_h, ae_h, wa)
        L_h = lin_h.values[2 * chk]
        acti = np.array([to_state(EC.internal_error(pert.iloc[k], nom.iloc[k]), wa) for k in chk])
        L = lin.values[chk]
        L2 = lin2.values[chk // 2]
        M = mod.values[chk]
        out[s] = (act, acti, L, L2, M, act_h, L_h)
    # bound of the neglected terms: |dx(t)| <= int |Phi(t,s)| N |x(s)| ds along the model's own linear solution
    Nb = neglected(v, case['lat'], wa)
    Nf = expand_blocks(Nb, wa)
    steps = [expm(0.5 * (F[k] + F[k + 1]) * dts[k]) for k in range(n)]
    X = np.abs(out[1.0][4])           # model solution at the checkpoints for s = 1 (grows smoothly; sampled coarsely)
    xs_full = np.abs(mod.values) * 10.0   # last loop had s = 0.1 -> scale back to s = 1
    bound_i = np.zeros((len(chk), ns))
    for ci, kc in enumerate(chk):
        if kc == 0:
            continue
        Psi = np.eye(ns)
        acc = np.zeros(ns)
        for k in range(kc - 1, -1, -1):
            acc += np.abs(Psi) @ (Nf @ xs_full[k]) * dts[k]
            Psi = Psi @ steps[k]
        bound_i[ci] = acc
    Tout = np.abs(em.transform_to_output(nom.iloc[chk]))
    bound_o = np.einsum('nij,nj->ni', Tout, bound_i)
    phi_max = np.abs(xs_full[:, -3:]).max()
    for s in (1.0, 0.1):
        act, acti, L, L2, M, act_h, L_h = out[s]
        res = np.abs(act - L)
        disc = np.abs(L - L2) + np.abs(act - act_h) + np.abs(L - L_h)     # Euler step of propagate_errors + IMU interval of the actual runs and of the prediction
        nl = 4 * s * s * np.array([phi_max ** 2 * (G0 * T ** 2 / 2 + v * T) + 1e-4] * 3 + [phi_max ** 2 * (G0 * T + v) + 1e-6] * 3 +
                                  [np.degrees(phi_max ** 2) / np.cos(np.radians(pmax + 1)) ** 2 + 1e-9] * 3)
        floor = np.array([1e-6] * 3 + [1e-9] * 3 + [1e-9] * 3)
        tol = 4 * disc + s * bound_o + nl + floor
        for gi, gname in enumerate(('position', 'velocity', 'attitude')):
            sl = slice(3 * gi, 3 * gi + 3)
            ratio = (res[:, sl] / tol[:, sl]).max()
            ctx.stat(f'propagate_{gname}_s{s}', ratio)
            k = int(np.argmax((res[:, sl] / tol[:, sl]).max(axis=1)))
            ctx.check(ratio <= 1.0, f'propagate_errors_mismatch:{gname}',
                      lambda: f'case={case} scale={s}: linear prediction vs actual {gname} error at t={nom.index[chk[k]]}: actual {act[k, sl]} predicted {L[k, sl]} '
                              f'tolerance {tol[k, sl]} (discretisation {disc[k, sl]}, neglected-term bound {s * bound_o[k, sl]}, second order {nl[sl]})')
        # model_error output (internal states) against own error coordinates
        resi = np.abs(acti - M)
        To = np.abs(em.transform_to_internal(nom.iloc[0]))
        toli = s * bound_i + 4 * np.abs((To @ disc.T).T) + (To @ (nl + floor)) + 1e-12
        ratio = (resi / toli).max()
        ctx.stat(f'model_error_s{s}', ratio)
        ctx.check(ratio <= 1.0, 'model_error_mismatch', lambda: f'case={case} scale={s}: internal-state prediction differs: max ratio {ratio:.3g}')
    # discriminating when the tolerance is well below the predicted error itself
    act, acti, L, L2, M, act_h, L_h = out[0.1]
    sig = np.abs(L).max(axis=0)
    tolmax = (4 * (np.abs(L - L2) + np.abs(act - act_h)) + 0.1 * bound_o).max(axis=0)
    ctx.mark_nontrivial(bool(np.sum(tolmax < 0.2 * sig) >= 4))


# ------------------------------------------------------------------------------------------ argument forms
def forms_strategy():
    return st.fixed_dictionaries({
        'k': st.integers(1, 6),
        'with_altitude': st.booleans(),
        'whole': st.sampled_from(['velocity', 'velocity', 'all', 'angles']),
        'sub': st.integers(0, 2 ** 31 - 1),
    })


def run_forms(case, ctx):
    """The model matrices and the propagated errors are functions of the VALUES in the trajectory: the same whole-number values
    stored as int64 columns (a hand-built or file-read table), one row given as a Series or as a one-row table, and a row taken
    alone or as part of a stack all give the same matrices."""
    from pyins import error_model
    wa = case['with_altitude']
    rng = np.random.RandomState(case['sub'])
    k = case['k']
    T = pd.DataFrame({'lat': rng.uniform(-80, 80, k), 'lon': rng.uniform(-180, 180, k), 'alt': rng.uniform(0, 20000, k),
                      'VN': rng.uniform(-200, 200, k), 'VE': rng.uniform(-200, 200, k), 'VD': rng.uniform(-20, 20, k) * wa,
                      'roll': rng.uniform(-180, 180, k), 'pitch': rng.uniform(-80, 80, k), 'heading': rng.uniform(-180, 180, k)},
                     index=pd.Index(np.cumsum(rng.uniform(0.1, 1.0, k)), name='time'))[gen.TRAJ_COLS]
    whole = {'velocity': EC.VEL, 'angles': EC.RPH, 'all': gen.TRAJ_COLS}[case['whole']]
    T[whole] = np.rint(T[whole]) + 0.0
    Ti = T.astype({c: np.int64 for c in whole})
    ctx.label(f'int_columns={case["whole"]}', f'rows={k if k < 3 else ">=3"}', 'mode=3D' if wa else 'mode=2D')
    em = error_model.InsErrorModel(wa)
    ref = ctx.sut(em.system_matrices, T)
    snap = Ti.copy()
    got = ctx.sut(em.system_matrices, Ti)
    ctx.check(Ti.equals(snap) and list(Ti.dtypes) == list(snap.dtypes), 'input_modified', '')
    names = ('F', 'B_gyro', 'B_accel')

    def same(a, b, what):
        for nm, x, y in zip(names, a, b):
            x, y = np.asarray(x), np.asarray(y)
            ctx.check(x.shape == y.shape, f'form_shape:{what}', lambda: f'{nm}: {x.shape} vs {y.shape}')
            scale = np.abs(y).max() if y.size else 0.0
            d = np.abs(x - y).max() if y.size else 0.0
            ctx.check(d <= 16 * np.spacing(max(scale, 1e-300)), f'form_dependent:{what}',
                      lambda: f'{nm} differs by {d:.3e} (largest entry {scale:.3e}) between {what}; table:\n{T}')
    same(got, ref, 'int64 and float64 columns')
    j = int(rng.randint(k))
    one = ctx.sut(em.system_matrices, T.iloc[j])                 # a single Pva (Series): no leading axis
    same(one, [m[j] for m in ref], 'a Series row and the same row of the stack')
    if case['whole'] == 'all':                                   # a Pva typed in as whole numbers: an int64 Series
        one_i = ctx.sut(em.system_matrices, Ti.iloc[j])
        same(one_i, [m[j] for m in ref], 'an int64 Series row and the float stack')
    tab1 = ctx.sut(em.system_matrices, T.iloc[j:j + 1])
    same([m[0] for m in tab1], [m[j] for m in ref], 'a one-row table and the same row of the stack')
    if k >= 2:
        err = pd.Series(rng.uniform(-1, 1, 9) * [5, 5, 5 * wa, 0.1, 0.1, 0.1 * wa, 0.05, 0.05, 0.05], index=gen.ERR_COLS)
        ge, ae = rng.uniform(-1e-5, 1e-5, 3), rng.uniform(-1e-3, 1e-3, 3)
        a = ctx.sut(error_model.propagate_errors, T, err, ge, ae, wa)
        b = ctx.sut(error_model.propagate_errors, Ti, err, ge, ae, wa)
        for x, y, nm in zip(a, b, ('trajectory error', 'model error')):
            d = np.abs(x.values - y.values).max()
            ctx.check(d <= 64 * np.spacing(np.abs(x.values).max()), 'form_dependent:propagate_errors',
                      lambda: f'{nm} differs by {d:.3e} between int64 and float64 trajectory columns')
    ctx.mark_nontrivial(k >= 2 and float(np.abs(T[EC.VEL].values).max()) >= 30.0)


CLAUSES = [
    Clause('forms', forms_strategy, run_forms, quick=(120, 4), thorough=(4000, 16)),
    Clause('blocks', case_strategy, run_blocks, quick=(64, 16), thorough=(4000, 16), shrink_quick=False),
    Clause('propagate', prop_strategy, run_propagate, quick=(32, 16), thorough=(1200, 16), shrink_quick=False),
]


def warmup():
    from . import c02
    c02.warmup()
