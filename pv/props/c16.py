"""C16 - Earth model and geodetic transforms are one coherent ellipsoidal geometry.

Oracle: own closed-form WGS-84 (pv/ref/wgs84.py: own constants, longdouble), central
differences of the library's own lla_to_ecef, parity relations, representation agreement.
"""
import numpy as np
import pandas as pd
from hypothesis import strategies as st

from ..core import Clause
from ..ref import wgs84 as W
from ..ref import rot as ROT
from ..tol import EPS, ulp

PROPERTY = 'C16'
RULE = ('Cases: a primary point drawn by Hypothesis from strata lat in {+-90, 0, +-1e-9, '
        '+-(90-1e-7), uniform}, lon in {+-180, 0, +-90, uniform incl. -0.0}, alt log/uniform '
        'in [-10 km, 40000 km] (conversions) or [-1, 100] km (gravity), plus a batch of 24 '
        'points expanded from an integer sub-seed and evaluated stacked, one-by-one and as '
        'list/DataFrame. Oracles: own closed-form WGS-84 in longdouble, central differences of '
        'the library lla_to_ecef, ladder |d| in {1000,100,10} m for first-order relations, '
        'parity under lat -> -lat. Non-trivial = primary point off the special set '
        '(|lat| not in {0,90}, lon not in {0,+-90,+-180}) in the southern or western '
        'hemisphere; distinct by SHA-1 of the case.')
ASSUMPTIONS = ['first-order metre relations evaluated for |lat| <= 89.9 only (east displacement undefined at poles)',
               'round-trip tolerance 1e-6 m (Olson algorithm accuracy class), closed forms 8 ulp of |r|',
               'x87 longdouble reference']

LAT_SPECIAL = [90.0, -90.0, 0.0, 1e-9, -1e-9, 90 - 1e-7, -(90 - 1e-7), 45.0, -45.0, 89.9, -89.9]
LON_SPECIAL = [180.0, -180.0, 0.0, -0.0, 90.0, -90.0, 179.99999999, -179.99999999]


def lat_st():
    return st.one_of(st.sampled_from(LAT_SPECIAL), st.floats(-90, 90), st.floats(-90, 90), st.floats(-90, 90))


def lon_st():
    return st.one_of(st.sampled_from(LON_SPECIAL), st.floats(-180, 180), st.floats(-180, 180), st.floats(-180, 180))


def alt_st(kind):
    if kind == 'conv':
        return st.one_of(st.sampled_from([0.0, -1e4, 4e7]), st.floats(-1e4, 1e5), st.floats(1e5, 4e7))
    return st.one_of(st.sampled_from([0.0, -1e3, 1e5]), st.floats(-1e3, 1e5))


def point_strategy(kind):
    def mk():
        return st.fixed_dictionaries({'lat': lat_st(), 'lon': lon_st(), 'alt': alt_st(kind),
                                      'sub': st.integers(0, 2 ** 31 - 1)})
    return mk


def batch(case, kind, k=24):
    rng = np.random.RandomState(case['sub'])
    lat = np.degrees(np.arcsin(rng.uniform(-1, 1, k)))
    lon = rng.uniform(-180, 180, k)
    if kind == 'conv':
        alt = np.where(rng.rand(k) < 0.5, rng.uniform(-1e4, 1e5, k), 10 ** rng.uniform(5, np.log10(4e7), k))
    else:
        alt = rng.uniform(-1e3, 1e5, k)
    pts = np.column_stack([lat, lon, alt])
    pts[0] = [case['lat'], case['lon'], case['alt']]
    return pts


def _labels(ctx, case):
    lat, lon = case['lat'], case['lon']
    ctx.label('hemi=' + ('N' if lat > 0 else 'S' if lat < 0 else '0') + ('E' if lon > 0 else 'W' if lon < 0 else '0'),
              'pole' if abs(lat) == 90 else 'near_pole' if abs(lat) > 89.9 else 'equator' if lat == 0 else 'lat_generic',
              'lon180' if abs(lon) == 180 else 'lon_generic',
              'alt>100km' if case['alt'] > 1e5 else 'alt<0' if case['alt'] < 0 else 'alt_0-100km')


def _nontrivial(case):
    lat, lon = case['lat'], case['lon']
    return abs(lat) not in (0.0, 90.0) and abs(lon) not in (0.0, 90.0, 180.0) and (lat < 0 or lon < 0)


def cos_rounding(lat_deg):
    """The library forms cos(lat) as sqrt(1 - sin^2): absolute rounding error
    min(sqrt(eps), eps / cos) - an accuracy class, not a defect."""
    c = np.abs(np.cos(np.asarray(lat_deg, float) * W.D2R))
    return np.minimum(np.sqrt(EPS), 2 * EPS / np.maximum(c, 1e-300))


# ------------------------------------------------------------------------------ conversions
def run_conversions(case, ctx):
    from pyins import transform
    _labels(ctx, case)
    pts = batch(case, 'conv')
    r_lib = ctx.sut(transform.lla_to_ecef, pts)
    ctx.check(r_lib.shape == (len(pts), 3), 'shape', str(r_lib.shape))
    r_ref = W.lla_to_ecef(pts, np.longdouble)
    nr = np.linalg.norm(np.asarray(r_ref, float), axis=1)
    err = np.linalg.norm(np.asarray(r_lib - r_ref, float), axis=1)
    tol = 8 * ulp(nr)
    ctx.stat('lla_to_ecef', (err / tol).max())
    i = int(np.argmax(err / tol))
    ctx.check(np.all(err <= tol), 'lla_to_ecef_closed_form',
              lambda: f'point {pts[i].tolist()} |r-ref|={err[i]:.3e} m tol={tol[i]:.3e}')
    # scalar / list forms
    r0 = ctx.sut(transform.lla_to_ecef, pts[0])
    ctx.check(r0.shape == (3,) and np.all(np.abs(r0 - r_lib[0]) <= 4 * ulp(nr[0])), 'form_scalar_lla_to_ecef',
              lambda: f'{r0} vs {r_lib[0]}')
    rl = ctx.sut(transform.lla_to_ecef, pts.tolist())
    ctx.check(np.array_equal(rl, r_lib), 'form_list_lla_to_ecef', 'list vs ndarray differ')
    # round trip, measured in ECEF metres by the own closed form
    back = ctx.sut(transform.ecef_to_lla, r_lib)
    ctx.check(back.shape == (len(pts), 3) and np.all(np.isfinite(back)), 'ecef_to_lla_finite', str(back[:2]))
    r_back = W.lla_to_ecef(back, np.longdouble)
    e2 = np.linalg.norm(np.asarray(r_back - r_ref, float), axis=1)
    ctx.stat('roundtrip_m', e2.max() / 1e-6)
    j = int(np.argmax(e2))
    ctx.check(np.all(e2 <= 1e-6), 'roundtrip', lambda: f'point {pts[j].tolist()} -> {back[j].tolist()} off by {e2[j]:.3e} m')
    ctx.check(np.all(np.abs(back[:, 0]) <= 90 + 1e-12) and np.all(np.abs(back[:, 1]) <= 180 + 1e-12),
              'roundtrip_range', lambda: f'{back[j].tolist()}')
    # component-wise where the coordinates are well defined
    off = np.abs(pts[:, 0]) < 89.999
    dl = np.abs(back[:, 0] - pts[:, 0]) * W.D2R * nr
    dlon = np.abs(((back[:, 1] - pts[:, 1] + 180) % 360) - 180) * W.D2R * nr * np.cos(pts[:, 0] * W.D2R)
    da = np.abs(back[:, 2] - pts[:, 2])
    ctx.check(np.all(dl <= 2e-6) and np.all(dlon[off] <= 2e-6) and np.all(da <= 2e-6), 'roundtrip_components',
              lambda: f'dlat {dl.max():.2e} m dlon {dlon[off].max() if off.any() else 0:.2e} m dalt {da.max():.2e} m')
    # own inverse agrees too (two independent oracles)
    mine = W.ecef_to_lla(np.asarray(r_ref, float))
    e3 = np.linalg.norm(np.asarray(W.lla_to_ecef(mine, np.longdouble) - r_ref, float), axis=1)
    if e3.max() > 1e-6:
        raise AssertionError('own ecef_to_lla reference inaccurate')
    b0 = ctx.sut(transform.ecef_to_lla, r_lib[0])
    ctx.check(b0.shape == (3,) and np.allclose(b0, back[0], rtol=0, atol=1e-11), 'form_scalar_ecef_to_lla',
              lambda: f'{b0} vs {back[0]}')
    ctx.mark_nontrivial(_nontrivial(case))


# ------------------------------------------------------------------------------ frame
def run_frame(case, ctx):
    from pyins import transform, earth
    _labels(ctx, case)
    pts = batch(case, 'conv')
    lat, lon, alt = pts.T
    C = ctx.sut(transform.mat_en_from_ll, lat, lon)
    ctx.check(C.shape == (len(pts), 3, 3), 'shape', str(C.shape))
    I = np.einsum('nij,nkj->nik', C, C)
    ctx.check(np.abs(I - np.eye(3)).max() <= 16 * EPS, 'not_orthonormal', lambda: f'{np.abs(I - np.eye(3)).max():.3e}')
    det = np.linalg.det(C)
    ctx.check(np.abs(det - 1).max() <= 16 * EPS, 'det', lambda: f'{det}')
    Cref = W.ned_axes(lat, lon)
    e = np.abs(C - Cref).max(axis=(1, 2))
    ctx.stat('axes', e.max() / (8 * EPS))
    i = int(np.argmax(e))
    ctx.check(np.all(e <= 8 * EPS), 'ned_axes', lambda: f'point {pts[i].tolist()} |C-ref|={e[i]:.3e}\n{C[i]}\n{Cref[i]}')
    # scalar form
    C0 = ctx.sut(transform.mat_en_from_ll, float(lat[0]), float(lon[0]))
    ctx.check(C0.shape == (3, 3) and np.abs(C0 - C[0]).max() <= 4 * EPS, 'form_scalar_mat_en', 'scalar vs stacked')
    # whole-degree latitudes handed over as an INTEGER array (or list of ints) next to fractional float longitudes, and the
    # other way round: the argument dtypes are independent of each other
    lat_i = np.clip(np.rint(lat), -90, 90).astype(np.int64)
    lon_i = np.clip(np.rint(lon), -180, 180).astype(np.int64)
    for tag, a, b in (('int_lat', lat_i, lon), ('int_lon', lat, lon_i), ('list_int_lat', [int(v) for v in lat_i], lon)):
        Ci = ctx.sut(transform.mat_en_from_ll, a, b)
        Cf = W.ned_axes(np.asarray(a, float), np.asarray(b, float))
        ei = np.abs(Ci - Cf).max()
        ctx.check(ei <= 8 * EPS, f'ned_axes:{tag}', lambda: f'{tag}: |C - ref| = {ei:.3e} (integer-typed argument next to a float one)')
    # partial derivatives of the LIBRARY's lla_to_ecef by central differences, |lat| <= 89.9
    m = np.abs(lat) <= 89.9
    if m.any():
        p = pts[m]
        h = 1e-3
        hd = 10.0
        f = transform.lla_to_ecef
        dN = (f(p + [h, 0, 0]) - f(p - [h, 0, 0])) / (2 * h * W.D2R)
        dE = (f(p + [0, h, 0]) - f(p - [0, h, 0])) / (2 * h * W.D2R)
        dU = (f(p + [0, 0, hd]) - f(p - [0, 0, hd])) / (2 * hd)
        rn, re, rp = ctx.sut(earth.principal_radii, p[:, 0], p[:, 2])
        rm_ref, rt_ref = W.radii(p[:, 0], p[:, 2])
        rr = np.linalg.norm(np.asarray(W.lla_to_ecef(p), float), axis=1)
        for nm, lib, ref in (('rn', rn, rm_ref), ('re', re, rt_ref),
                             ('rp', rp, rt_ref * np.cos(p[:, 0] * W.D2R))):
            er = np.abs(lib - ref)
            k = int(np.argmax(er))
            tl = 8 * ulp(rr) + (rr * cos_rounding(p[:, 0]) if nm == 'rp' else 0)
            ctx.check(np.all(er <= tl), f'principal_radii_{nm}',
                      lambda: f'point {p[k].tolist()} {lib[k]} vs {ref[k]}')
        lenN = np.linalg.norm(dN, axis=1)
        lenE = np.linalg.norm(dE, axis=1)
        ctx.check(np.all(np.abs(lenN - rn) <= 2e-8 * rr), 'dr_dlat_length', lambda: f'{np.abs(lenN - rn).max():.3e}')
        ctx.check(np.all(np.abs(lenE - rp) <= 2e-8 * rr), 'dr_dlon_length', lambda: f'{np.abs(lenE - rp).max():.3e}')
        Cm = C[m]
        eN = np.abs(dN / rn[:, None] - Cm[:, :, 0]).max()
        ok = rp > 1e-3 * rr
        eE = np.abs(dE[ok] / rp[ok, None] - Cm[ok][:, :, 1]).max() if ok.any() else 0.0
        eD = np.abs(-dU - Cm[:, :, 2]).max()
        ctx.stat('fd_axes', max(eN, eE, eD) / 1e-7)
        ctx.check(eN <= 1e-7 and eE <= 1e-7 and eD <= 1e-7, 'axes_vs_partial_derivatives',
                  lambda: f'N {eN:.2e} E {eE:.2e} D {eD:.2e}')
    # scalar principal_radii
    s = ctx.sut(earth.principal_radii, float(lat[0]), float(alt[0]))
    v = ctx.sut(earth.principal_radii, lat, alt)
    # numpy's scalar and vectorised sin may differ in the last ulp; rp = (re+h) sqrt(1 - sin^2) amplifies that by 1/cos^2
    allow = [0.0, 0.0, 6.4e6 * float(cos_rounding(lat[0]))]
    ctx.check(all(abs(float(a) - b[0]) <= 4 * ulp(b[0]) + al for a, b, al in zip(s, v, allow)), 'form_scalar_radii',
              lambda: f'scalar {[float(a) for a in s]} vs stacked {[b[0] for b in v]}')
    ctx.mark_nontrivial(_nontrivial(case))


# ------------------------------------------------------------------------------ first order
def run_first_order(case, ctx):
    from pyins import transform, earth
    _labels(ctx, case)
    pts = batch(case, 'grav')          # altitudes -1..100 km
    pts = pts[np.abs(pts[:, 0]) <= 89.0]
    if len(pts) == 0:
        return
    rng = np.random.RandomState(case['sub'] ^ 0x9e3779b1)
    u = rng.randn(len(pts), 3)
    u /= np.linalg.norm(u, axis=1)[:, None]
    lat, lon, alt = pts.T
    C = W.ned_axes(lat, lon)
    Rr = W.A
    tanl = np.abs(np.tan(lat * W.D2R))
    prev = None
    for mag in (1000.0, 100.0, 10.0):
        d = u * mag
        p2 = ctx.sut(transform.perturb_lla, pts, d)
        ctx.check(p2.shape == pts.shape, 'shape', str(p2.shape))
        dr = np.asarray(W.lla_to_ecef(p2, np.longdouble) - W.lla_to_ecef(pts, np.longdouble), float)
        res1 = np.linalg.norm(dr - np.einsum('nij,nj->ni', C, d), axis=1)
        tol = 1.5 * mag ** 2 * (1 + tanl) / Rr + 64 * ulp(90.0) * W.D2R * Rr
        ctx.stat(f'perturb_{int(mag)}', (res1 / tol).max())
        i = int(np.argmax(res1 / tol))
        ctx.check(np.all(res1 <= tol), 'perturb_lla_geometry',
                  lambda: f'|d|={mag} point {pts[i].tolist()} d={d[i].tolist()} residual {res1[i]:.3e} tol {tol[i]:.3e}')
        dd = ctx.sut(transform.compute_lla_difference, p2, pts)
        res2 = np.linalg.norm(dd - d, axis=1)
        ctx.check(np.all(res2 <= tol), 'lla_difference_inverse',
                  lambda: f'|d|={mag} residual {res2.max():.3e}')
        # antisymmetry of the difference is exact
        dd2 = transform.compute_lla_difference(pts, p2)
        ctx.check(np.array_equal(dd2, -dd), 'lla_difference_antisymmetry', 'compute_lla_difference(a,b) != -(b,a)')
        # local NED coordinates of the displaced point, origin = the point
        k = 0
        ned = ctx.sut(transform.lla_to_ned, np.vstack([pts[k], p2[k]]), pts[k])
        res3 = np.linalg.norm(ned[1] - d[k])
        ctx.check(np.all(np.abs(ned[0]) <= 1e-8) and res3 <= tol[k], 'lla_to_ned',
                  lambda: f'ned={ned.tolist()} d={d[k].tolist()} tol={tol[k]:.3e}')
        if mag == 10.0:
            # default origin = first row; DataFrame in -> DataFrame out with the same values and index
            both = np.vstack([pts[k], p2[k]])
            dflt = ctx.sut(transform.lla_to_ned, both)
            ctx.check(np.array_equal(dflt, ned), 'lla_to_ned_default_origin', lambda: f'{dflt} vs {ned}')
            frame = pd.DataFrame(both, index=[10.0, 11.5], columns=['lat', 'lon', 'alt'])
            frame['extra'] = 1.0
            fr = ctx.sut(transform.lla_to_ned, frame)
            ctx.check(isinstance(fr, pd.DataFrame) and list(fr.columns) == ['north', 'east', 'down'] and list(fr.index) == [10.0, 11.5]
                      and np.array_equal(fr.values, ned), 'lla_to_ned_frame_form', lambda: f'{fr}')
        # curvature matrix: rotation of the NED frame under the displacement, altitude varied
        Fm = ctx.sut(earth.curvature_matrix, lat, alt)
        C2 = W.ned_axes(p2[:, 0], p2[:, 1])
        D = np.einsum('nji,njk->nik', C, C2)          # C_n<-n'
        rv = np.asarray(ROT.log_so3(D, float), float)
        pred = np.einsum('nij,nj->ni', Fm, d)
        res4 = np.linalg.norm(rv - pred, axis=1)
        tol4 = 3 * (mag / Rr) ** 2 * (1 + tanl) ** 2 + 64 * EPS
        ctx.stat(f'curvature_{int(mag)}', (res4 / tol4).max())
        i4 = int(np.argmax(res4 / tol4))
        ctx.check(np.all(res4 <= tol4), 'curvature_matrix',
                  lambda: f'|d|={mag} point {pts[i4].tolist()} rotvec {rv[i4]} F d {pred[i4]} tol {tol4[i4]:.3e}')
        prev = res1
    # the curvature matrix uses the radii at the actual altitude (independent closed form)
    rm, rt = W.radii(lat, alt)
    Fref = np.zeros((len(pts), 3, 3))
    Fref[:, 0, 1] = 1 / rt
    Fref[:, 1, 0] = -1 / rm
    Fref[:, 2, 1] = -np.tan(lat * W.D2R) / rt
    eF = np.abs(Fm - Fref).max(axis=(1, 2)) * Rr
    ctx.check(np.all(eF <= 64 * EPS * (1 + tanl)), 'curvature_matrix_closed_form', lambda: f'{eF.max():.3e}')
    F0 = ctx.sut(earth.curvature_matrix, float(lat[0]), float(alt[0]))
    ctx.check(F0.shape == (3, 3) and np.abs(F0 - Fm[0]).max() * Rr <= 8 * EPS * (1 + tanl[0]), 'form_scalar_curvature', '')
    ctx.mark_nontrivial(_nontrivial(case) and abs(case['lat']) <= 89.0)


# ------------------------------------------------------------------------------ gravity
def run_gravity(case, ctx):
    from pyins import earth, transform, _numba_integrate
    _labels(ctx, case)
    pts = batch(case, 'grav')
    lat, lon, alt = pts.T
    g = ctx.sut(earth.gravity, lat, alt)
    gref = W.gravity(lat, alt)
    e = np.abs(g - gref)
    ctx.stat('gravity', (e / (8 * ulp(gref))).max())
    i = int(np.argmax(e))
    ctx.check(np.all(e <= 8 * ulp(gref)), 'gravity_somigliana', lambda: f'point {pts[i].tolist()} {g[i]!r} vs {gref[i]!r}')
    gk = np.array([ctx.sut(_numba_integrate.gravity, float(a), float(b)) for a, b in zip(lat[:6], alt[:6])])
    ctx.check(np.all(np.abs(gk - g[:6]) <= 4 * ulp(g[:6])), 'compiled_gravity_differs', lambda: f'{gk} vs {g[:6]}')
    gs = ctx.sut(earth.gravity, float(lat[0]), float(alt[0]))
    ctx.check(abs(float(gs) - g[0]) <= 2 * ulp(g[0]), 'form_scalar_gravity', '')
    gn = ctx.sut(earth.gravity_n, lat, alt)
    ctx.check(gn.shape == (len(pts), 3) and np.all(gn[:, :2] == 0) and np.array_equal(gn[:, 2], g), 'gravity_n', '')
    gn0 = ctx.sut(earth.gravity_n, float(lat[0]), float(alt[0]))
    ctx.check(gn0.shape == (3,) and gn0[0] == 0 and gn0[1] == 0 and abs(gn0[2] - g[0]) <= 2 * ulp(g[0]), 'gravity_n_scalar', '')
    # gravitation = gravity + Omega x (Omega x r) (i.e. gravity minus centrifugal acceleration)
    ge = ctx.sut(earth.gravitation_ecef, pts)
    C = W.ned_axes(lat, lon)
    r = np.asarray(W.lla_to_ecef(pts, np.longdouble), float)
    om = np.array([0, 0, W.RATE])
    ref = np.einsum('nij,nj->ni', C, np.column_stack([0 * g, 0 * g, gref])) + np.cross(om, np.cross(om, r))
    eg = np.linalg.norm(ge - ref, axis=1)
    tg = 64 * EPS * 10 + 2 * W.RATE ** 2 * np.linalg.norm(r, axis=1) * cos_rounding(lat)
    ctx.stat('gravitation', (eg / tg).max())
    i2 = int(np.argmax(eg / tg))
    ctx.check(np.all(eg <= tg), 'gravitation_ecef', lambda: f'point {pts[i2].tolist()} {ge[i2]} vs {ref[i2]}')
    ge0 = ctx.sut(earth.gravitation_ecef, pts[0])
    ctx.check(ge0.shape == (3,) and np.abs(ge0 - ge[0]).max() <= 16 * EPS * 10, 'form_scalar_gravitation', '')
    # gravitation points roughly to the Earth's centre and is stronger than gravity at the equator
    rn_ = ctx.sut(earth.rate_n, lat)
    en = np.abs(rn_ - W.rate_n(lat)).max()
    ctx.check(en <= 4 * EPS * W.RATE, 'rate_n', lambda: f'{en:.3e}')
    r0 = ctx.sut(earth.rate_n, float(lat[0]))
    ctx.check(r0.shape == (3,) and np.abs(r0 - rn_[0]).max() <= 2 * EPS * W.RATE, 'form_scalar_rate_n', '')
    # rate_n == C_en^T (0,0,Omega) with the library's own frame matrix
    Cl = transform.mat_en_from_ll(lat, lon)
    e3 = np.abs(np.einsum('nji,j->ni', Cl, om) - rn_).max()
    ctx.check(e3 <= 8 * EPS * W.RATE, 'rate_n_vs_frame', lambda: f'{e3:.3e}')
    # parity under lat -> -lat
    ptsm = pts * [-1, 1, 1]
    ctx.check(np.array_equal(earth.gravity(-lat, alt), g), 'parity_gravity', 'g(lat) != g(-lat)')
    a1 = earth.principal_radii(lat, alt)
    a2 = earth.principal_radii(-lat, alt)
    ctx.check(all(np.array_equal(x, y) for x, y in zip(a1, a2)), 'parity_radii', '')
    rm_ = earth.rate_n(-lat)
    ctx.check(np.array_equal(rm_[:, 0], rn_[:, 0]) and np.array_equal(rm_[:, 2], -rn_[:, 2]), 'parity_rate', '')
    gm = earth.gravitation_ecef(ptsm)
    ctx.check(np.abs(gm * [1, 1, -1] - ge).max() <= 32 * EPS * 10, 'parity_gravitation', lambda: f'{np.abs(gm * [1, 1, -1] - ge).max():.3e}')
    # anchors
    ctx.check(abs(float(earth.gravity(0.0, 0.0)) - W.GE) <= 2 * ulp(W.GE), 'GE_at_equator', '')
    ctx.check(abs(float(earth.gravity(90.0, 0.0)) - W.GP) <= 4 * ulp(W.GP), 'GP_at_pole', '')
    ctx.check(abs(float(earth.gravity(-90.0, 0.0)) - W.GP) <= 4 * ulp(W.GP), 'GP_at_south_pole', '')
    ctx.mark_nontrivial(_nontrivial(case))


CLAUSES = [
    Clause('conversions', point_strategy('conv'), run_conversions, quick=(800, 4), thorough=(40000, 16)),
    Clause('frame', point_strategy('conv'), run_frame, quick=(800, 4), thorough=(40000, 16)),
    Clause('first_order', point_strategy('grav'), run_first_order, quick=(600, 4), thorough=(30000, 16)),
    Clause('gravity', point_strategy('grav'), run_gravity, quick=(600, 4), thorough=(30000, 16)),
]


def selftest():
    W.selftest()
    ROT.selftest()
