"""C19 - public functions are pure, deterministic and keep the documented schema.

A registry of the public callables of the ten modules, each with a builder producing valid arguments
(writable float64 ndarrays, lists, Series, DataFrames) from an integer sub-seed. Oracles: deep argument
snapshots before/after, run-twice bit-identity (equal integer seeds where randomness is involved),
agreement of argument forms, schema tables; plus generated call sequences re-issuing earlier calls.
"""
import numpy as np
import pandas as pd
from hypothesis import strategies as st

from ..core import Clause
from .. import gen
from ..tol import bits_equal, ulp

PROPERTY = 'C19'
RULE = ('Cases: (registry) every entry of a registry of public callables (module autosummary lists + public methods of '
        'Integrator, InsErrorModel, EstimationModel, Parameters, measurement classes, Turntable.rotate/rest; '
        'Turntable.generate_imu excluded: it raises inside scipy on this image) with arguments built from an integer '
        'sub-seed in a generated form (writable ndarray / list / Series / DataFrame / scalar); (sequence) generated lists '
        'of up to 12 registry calls incl. both filters, with earlier calls re-issued. Oracles: deep snapshots of all '
        'arguments before/after (documented exception: estimates of sensor models handed to a filter), same call twice '
        'bit-identical, re-issued call bit-identical to its first result, alternative argument forms within 4 ulp, '
        'column sets / index per the documented kinds. Non-trivial = call with >= 1 writable ndarray or table argument '
        'that the callee reads; distinct by (callable, form, sub-seed).')
ASSUMPTIONS = ['the registry is hand-written; public callables found in the modules but absent from it are listed in the evidence as uncovered',
               'form agreement tolerance 4 ulp of the largest magnitude in the result']

TRAJ = gen.TRAJ_COLS
ERRC = gen.ERR_COLS
IMU = ['gyro_x', 'gyro_y', 'gyro_z', 'accel_x', 'accel_y', 'accel_z']


# ------------------------------------------------------------------------------ deep snapshot / equality
def snap(x, depth=0):
    if isinstance(x, np.ndarray):
        return ('nd', x.dtype.str, x.shape, x.tobytes())
    if isinstance(x, pd.DataFrame):
        return ('df', tuple(map(str, x.columns)), tuple(x.dtypes.astype(str)), str(x.index.name), str(x.columns.name), snap(np.asarray(x.index)),
                snap(np.ascontiguousarray(x.values)))
    if isinstance(x, pd.Series):
        return ('sr', str(x.name), snap(np.asarray(x.index, dtype=object).astype(str)), snap(np.ascontiguousarray(x.values)))
    if isinstance(x, (list, tuple)):
        return (type(x).__name__,) + tuple(snap(v, depth + 1) for v in x)
    if isinstance(x, dict):
        return ('dict',) + tuple((str(k), snap(v, depth + 1)) for k, v in sorted(x.items(), key=lambda kv: str(kv[0])))
    if isinstance(x, (int, float, str, bool, type(None), np.generic)):
        return ('v', repr(x))
    if isinstance(x, np.random.RandomState):
        return ('rng',)
    if hasattr(x, 'as_quat'):
        return ('rot', snap(np.asarray(x.as_quat())))
    if hasattr(x, '__dict__') and depth < 3 and type(x).__module__.startswith('pyins'):
        return ('obj', type(x).__name__) + tuple((k, snap(v, depth + 1)) for k, v in sorted(vars(x).items()) if not k.startswith('__'))
    return ('other', type(x).__name__)


def model_estimates_free(x):
    """snapshot of an EstimationModel ignoring its (documented mutable) estimate state."""
    return tuple((k, snap(v)) for k, v in sorted(vars(x).items()) if k not in ('transform', 'bias'))


def out_equal(a, b):
    """bitwise deep equality of outputs; returns None or a description of the first difference."""
    if isinstance(a, np.ndarray) or isinstance(b, np.ndarray):
        a, b = np.asarray(a), np.asarray(b)
        if a.shape != b.shape:
            return f'shape {a.shape} vs {b.shape}'
        if a.dtype.kind in 'fc':
            return None if bits_equal(a.astype(float), b.astype(float)) else 'values differ'
        return None if np.array_equal(a, b) else 'values differ'
    if isinstance(a, pd.DataFrame):
        if not isinstance(b, pd.DataFrame) or list(a.columns) != list(b.columns) or not np.array_equal(np.asarray(a.index), np.asarray(b.index)):
            return 'frame schema differs'
        try:
            return out_equal(a.values.astype(float), b.values.astype(float))
        except (TypeError, ValueError):
            return None if a.equals(b) else 'values differ'
    if isinstance(a, pd.Series):
        if not isinstance(b, pd.Series) or list(a.index) != list(b.index):
            return 'series schema differs'
        return out_equal(a.values.astype(float), b.values.astype(float))
    if isinstance(a, dict):
        if set(a) != set(b):
            return 'keys differ'
        for k in a:
            r = out_equal(a[k], b[k])
            if r:
                return f'{k}: {r}'
        return None
    if isinstance(a, (list, tuple)):
        if len(a) != len(b):
            return 'length differs'
        for i, (x, y) in enumerate(zip(a, b)):
            r = out_equal(x, y)
            if r:
                return f'[{i}]: {r}'
        return None
    if isinstance(a, (float, np.floating)):
        return None if bits_equal(np.float64(a), np.float64(b)) else f'{a!r} vs {b!r}'
    if a is None or isinstance(a, (int, str, bool, np.integer)):
        return None if a == b else f'{a!r} vs {b!r}'
    if hasattr(a, 'as_matrix'):
        return out_equal(a.as_matrix(), b.as_matrix())
    return None


def close_forms(a, b, k=4, abs_tol=0.0):
    """numeric closeness of two outputs obtained from different argument forms."""
    fa = flatten(a)
    fb = flatten(b)
    if fa.shape != fb.shape:
        return f'size {fa.shape} vs {fb.shape}'
    if fa.size == 0:
        return None
    tol = k * ulp(max(np.abs(fa).max(), 1e-300)) + abs_tol
    d = np.abs(fa - fb).max()
    return None if d <= tol else f'forms differ by {d:.3e} (tol {tol:.3e})'


def flatten(x):
    if x is None or isinstance(x, str):
        return np.zeros(0)
    if hasattr(x, 'as_matrix'):
        return np.asarray(x.as_matrix(), float).ravel()
    if isinstance(x, (pd.DataFrame, pd.Series)):
        return np.asarray(x.values, float).ravel()
    if isinstance(x, (list, tuple)):
        parts = [flatten(v) for v in x]
        return np.concatenate(parts) if parts else np.zeros(0)
    if isinstance(x, dict):
        return flatten([x[k] for k in sorted(x)])
    return np.atleast_1d(np.asarray(x, float)).ravel()


# ------------------------------------------------------------------------------ shared data builders
def traj(rng, n=12, with_rates=False):
    t = 5.0 + 0.1 * np.arange(n)
    lat0 = float(rng.choice([50.0, -33.0, 1.0]))
    lon0 = float(rng.choice([10.0, -120.0, 179.0]))
    s = t - t[0]
    df = pd.DataFrame({'lat': lat0 + 1e-5 * s, 'lon': lon0 - 2e-5 * s, 'alt': 100 + 0.5 * s, 'VN': 5 + np.sin(s), 'VE': -3 + np.cos(s), 'VD': 0.1 * np.sin(s),
                       'roll': 3 * np.sin(s), 'pitch': 2 * np.cos(s), 'heading': 40 + 10 * s}, index=pd.Index(t, name='time'))[TRAJ]
    if with_rates:
        df['rate_x'], df['rate_y'], df['rate_z'] = 0.1, -0.05, 0.2
    return df


def pva(rng, with_rates=False):
    p = traj(rng, 3, with_rates).iloc[1].copy()
    return p


def imu_table(rng, n=20):
    t = 2.0 + 0.05 * np.arange(n)
    d = rng.randn(n, 6) * [0.1, 0.1, 0.1, 1, 1, 1] + [0, 0, 0, 0, 0, -9.8]
    return pd.DataFrame(d, index=pd.Index(t, name='time'), columns=IMU)


def increments(rng, n=20, t0=0.0):
    inc = gen.increments_table(int(rng.randint(2 ** 31)), n, t0=t0, kind='uniform', theta_max=0.02, dv_max=0.5, vertical=-9.8)
    inc.index.name = [None, 'time', 'gps_seconds'][int(rng.randint(3))]     # the caller's index (and its name) belongs to the caller
    return inc


def lla_points(rng, n=6):
    return np.column_stack([rng.uniform(-80, 80, n), rng.uniform(-180, 180, n), rng.uniform(-100, 10000, n)])


def est_model(rng, full=True):
    from pyins import inertial_sensor as isn
    if full:
        return isn.EstimationModel(bias_sd=[1e-4, 0, 2e-4], noise=[1e-4, 1e-4, 0], bias_walk=[1e-6, 0, 0], scale_misal_sd=1e-3 * (rng.rand(3, 3) < 0.5))
    return isn.EstimationModel(bias_sd=1e-2, noise=1e-3)


_AS_FORM_CALLS = [0]          # as_form calls since the start of the current argument build (reset by the registry wrapper)


def _totuple(x):
    return tuple(_totuple(v) for v in x) if isinstance(x, list) else x


def as_form(arr, form, columns=None):
    """form = array | list | tuple | series | frame, optionally followed by '+ival' (values rounded to integers, float dtype)
    or '+int' (same values, integer dtype / Python ints): an integer-typed argument is one more accepted form of an
    integer-valued one."""
    integer = False
    if form.endswith('+ival1') or form.endswith('+int1'):
        # mixed dtypes: only the FIRST array argument of the call is whole-numbered / integer-typed, the others stay fractional floats
        first = _AS_FORM_CALLS[0] == 0
        _AS_FORM_CALLS[0] += 1
        kind, form = form[form.index('+'):], form[:form.index('+')]
        if first:
            form = form + kind[:-1]
    if form.endswith('+ival'):
        arr, form = np.rint(np.asarray(arr, float)), form[:-5]
    elif form.endswith('+int'):
        arr, form, integer = np.rint(np.asarray(arr, float)).astype(np.int64), form[:-4], True
    if form == 'list':
        return np.asarray(arr).tolist()
    if form == 'tuple':
        return _totuple(np.asarray(arr).tolist())
    if integer:
        return np.array(arr)
    if form == 'frame' and columns is not None and np.ndim(arr) == 2:
        return pd.DataFrame(np.asarray(arr), columns=columns)
    if form == 'series' and columns is not None and np.ndim(arr) == 1:
        return pd.Series(np.asarray(arr), index=columns)
    return np.array(arr, dtype=float)


# ------------------------------------------------------------------------------ registry
# entry: name -> builder(rng, form) -> dict(fn=callable, args=list, kwargs=dict, kind=str|None, forms=list of alternative arg builders)
def registry():
    from pyins import earth, transform, util, kalman, strapdown, error_model, inertial_sensor as isn, measurements, sim, filters
    R = {}

    def reg(name, forms=('array',), kind=None):
        def deco(f):
            def build(rng, form, _f=f):
                _AS_FORM_CALLS[0] = 0
                return _f(rng, form)
            R[name] = dict(build=build, forms=forms, kind=kind)
            return f
        return deco

    # ---- earth
    @reg('earth.principal_radii', forms=('array', 'list', 'series'))
    def _(rng, form):
        p = lla_points(rng)
        return earth.principal_radii, [as_form(p[:, 0], form, list('abcdef')), as_form(p[:, 2], form, list('abcdef'))], {}

    @reg('earth.gravity', forms=('array', 'list', 'series'))
    def _(rng, form):
        p = lla_points(rng)
        return earth.gravity, [as_form(p[:, 0], form, list('abcdef')), as_form(p[:, 2], form, list('abcdef'))], {}

    @reg('earth.gravity_n', forms=('array', 'list'))
    def _(rng, form):
        p = lla_points(rng)
        return earth.gravity_n, [as_form(p[:, 0], form), as_form(p[:, 2], form)], {}

    @reg('earth.gravitation_ecef', forms=('array', 'list', 'frame'))
    def _(rng, form):
        return earth.gravitation_ecef, [as_form(lla_points(rng), form, ['lat', 'lon', 'alt'])], {}

    @reg('earth.curvature_matrix', forms=('array', 'list'))
    def _(rng, form):
        p = lla_points(rng)
        return earth.curvature_matrix, [as_form(p[:, 0], form), as_form(p[:, 2], form)], {}

    @reg('earth.rate_n', forms=('array', 'list'))
    def _(rng, form):
        return earth.rate_n, [as_form(lla_points(rng)[:, 0], form)], {}

    # ---- transform
    @reg('transform.lla_to_ecef', forms=('array', 'list', 'frame'))
    def _(rng, form):
        return transform.lla_to_ecef, [as_form(lla_points(rng), form, ['lat', 'lon', 'alt'])], {}

    @reg('transform.ecef_to_lla', forms=('array', 'list'))
    def _(rng, form):
        return transform.ecef_to_lla, [as_form(transform.lla_to_ecef(lla_points(rng)), form)], {}

    @reg('transform.lla_to_ned', forms=('array', 'list'))
    def _(rng, form):
        p = lla_points(rng)
        p[:, :2] = p[0, :2] + rng.uniform(-1e-3, 1e-3, (len(p), 2))
        return transform.lla_to_ned, [as_form(p, form), as_form(p[1], form)], {}

    @reg('transform.lla_to_ned[frame]', kind='ned_frame')
    def _(rng, form):
        return transform.lla_to_ned, [traj(rng)[['lat', 'lon', 'alt']]], {}

    @reg('transform.perturb_lla', forms=('array', 'list', 'frame'))
    def _(rng, form):
        p = lla_points(rng)
        return transform.perturb_lla, [as_form(p, form, ['lat', 'lon', 'alt']), as_form(rng.randn(len(p), 3) * 10, form, ['north', 'east', 'down'])], {}

    @reg('transform.translate_trajectory', kind='same_as_arg0')
    def _(rng, form):
        return transform.translate_trajectory, [traj(rng, with_rates=bool(rng.rand() < 0.5)), np.array([1.0, -2.0, 0.5])], {}

    @reg('transform.translate_trajectory[pva]')
    def _(rng, form):
        return transform.translate_trajectory, [pva(rng, True), [1.0, -2.0, 0.5]], {}

    @reg('transform.compute_lla_difference', forms=('array', 'list', 'frame'))
    def _(rng, form):
        p = lla_points(rng)
        q = p + rng.randn(*p.shape) * [1e-5, 1e-5, 3]
        return transform.compute_lla_difference, [as_form(p, form, ['lat', 'lon', 'alt']), as_form(q, form, ['lat', 'lon', 'alt'])], {}

    @reg('transform.resample_state', kind='same_columns_as_arg0')
    def _(rng, form):
        tr = traj(rng)
        t = np.asarray(tr.index)
        return transform.resample_state, [tr, rng.uniform(t[0] - 0.2, t[-1] + 0.2, 9)], {}

    @reg('transform.compute_state_difference', kind='trajectory_error')
    def _(rng, form):
        a = traj(rng)
        b = a.iloc[::2].copy()
        b[['lat', 'VN', 'heading']] += [1e-5, 0.1, 0.3]
        return transform.compute_state_difference, [a, b], {}

    @reg('transform.compute_state_difference[series]', kind='pva_error')
    def _(rng, form):
        a = pva(rng)
        b = a.copy()
        b[['lat', 'VN', 'heading']] += [1e-5, 0.1, 0.3]
        return transform.compute_state_difference, [a, b], {}

    @reg('transform.smooth_rotations')
    def _(rng, form):
        from scipy.spatial.transform import Rotation
        rot = Rotation.from_euler('xyz', rng.uniform(-10, 10, (40, 3)), True)
        return transform.smooth_rotations, [rot, 0.1, float(rng.uniform(0.26, 0.94))], {}       # many ratios share a window length

    @reg('transform.smooth_state', kind='same_columns_as_arg0')
    def _(rng, form):
        return transform.smooth_state, [traj(rng, 60), float(rng.uniform(0.26, 0.94))], {}

    @reg('transform.mat_en_from_ll', forms=('array', 'list'))
    def _(rng, form):
        p = lla_points(rng)
        return transform.mat_en_from_ll, [as_form(p[:, 0], form), as_form(p[:, 1], form)], {}

    @reg('transform.mat_from_rph', forms=('array', 'list', 'frame'))
    def _(rng, form):
        return transform.mat_from_rph, [as_form(rng.uniform(-80, 80, (5, 3)), form, ['roll', 'pitch', 'heading'])], {}

    @reg('transform.mat_to_rph', forms=('array', 'list'))
    def _(rng, form):
        return transform.mat_to_rph, [as_form(transform.mat_from_rph(rng.uniform(-80, 80, (5, 3))), form)], {}

    # ---- util
    @reg('util.mm_prod', forms=('array', 'list'))
    def _(rng, form):
        return util.mm_prod, [as_form(rng.randn(4, 3, 3), form), as_form(rng.randn(4, 3, 2), form)], {'at': True}

    @reg('util.mm_prod_symmetric', forms=('array', 'list'))
    def _(rng, form):
        return util.mm_prod_symmetric, [as_form(rng.randn(4, 2, 3), form), as_form(rng.randn(4, 3, 3), form)], {}

    @reg('util.mv_prod', forms=('array', 'list'))
    def _(rng, form):
        return util.mv_prod, [as_form(rng.randn(4, 3, 3), form), as_form(rng.randn(4, 3), form)], {'at': bool(rng.rand() < 0.5)}

    @reg('util.skew_matrix', forms=('array', 'list', 'frame'))
    def _(rng, form):
        return util.skew_matrix, [as_form(rng.randn(4, 3), form, ['VN', 'VE', 'VD'])], {}

    @reg('util.compute_rms', forms=('array', 'list', 'frame'))
    def _(rng, form):
        return util.compute_rms, [as_form(rng.randn(7, 3), form, ['a', 'b', 'c'])], {}

    @reg('util.to_180_range', forms=('array', 'list', 'series'))
    def _(rng, form):
        a = rng.uniform(-1000, 1000, 6)
        a[0] = float(rng.choice([180.0, -180.0, 540.0, -540.0, 900.0, 0.0, 360.0]))        # boundary values in every form, incl. the single one
        return util.to_180_range, [as_form(a, form, list('abcdef'))], {}

    # ---- kalman
    @reg('kalman.compute_process_matrices')
    def _(rng, form):
        F = rng.randn(5, 5)
        G = rng.randn(5, 2)
        return kalman.compute_process_matrices, [F, G @ G.T, 0.3], {}

    @reg('kalman.correct')
    def _(rng, form):
        A = rng.randn(5, 5)
        return kalman.correct, [rng.randn(5), A @ A.T, rng.randn(2), rng.randn(2, 5), np.diag([0.5, 2.0])], {}

    # ---- strapdown
    @reg('strapdown.compute_increments_from_imu', kind='increments')
    def _(rng, form):
        return strapdown.compute_increments_from_imu, [imu_table(rng), str(rng.choice(['rate', 'increment']))], {}

    @reg('strapdown.Integrator.integrate', kind='trajectory')
    def _(rng, form):
        p = pva(rng)
        inc = increments(rng, t0=float(p.name))
        wa = bool(rng.rand() < 0.5)
        return (lambda pv_, inc_: strapdown.Integrator(pv_, wa).integrate(inc_)), [p, inc], {}

    @reg('strapdown.Integrator.predict+get_pva+set_pva+get_time', kind=None)
    def _(rng, form):
        p = pva(rng)
        inc = increments(rng, t0=float(p.name))
        q = pva(rng)

        def call(pv_, inc_, q_):
            I = strapdown.Integrator(pv_)
            a = I.predict(inc_.iloc[0])
            I.integrate(inc_.iloc[:5])
            b = I.get_pva().copy()
            I.set_pva(q_)
            c = I.integrate(inc_.iloc[5:9])
            return a, b, c, I.get_time(), I.trajectory
        return call, [p, inc, q], {}

    # ---- error model
    for meth in ('system_matrices', 'transform_to_output'):
        for shape in ('trajectory', 'pva'):
            def mk(meth=meth, shape=shape):
                def b(rng, form):
                    em = error_model.InsErrorModel(bool(rng.rand() < 0.5))
                    return getattr(em, meth), [traj(rng) if shape == 'trajectory' else pva(rng)], {}
                return b
            R[f'error_model.InsErrorModel.{meth}[{shape}]'] = dict(build=mk(), forms=('array',), kind=None)

    @reg('error_model.InsErrorModel.transform_to_internal')
    def _(rng, form):
        return error_model.InsErrorModel(bool(rng.rand() < 0.5)).transform_to_internal, [pva(rng)], {}

    @reg('error_model.InsErrorModel.correct_pva', kind='pva')
    def _(rng, form):
        wa = bool(rng.rand() < 0.5)
        x = rng.randn(9 if wa else 7) * 1e-3
        return error_model.InsErrorModel(wa).correct_pva, [pva(rng), x], {}

    for jac in ('position_error_jacobian', 'ned_velocity_error_jacobian', 'body_velocity_error_jacobian'):
        def mk(jac=jac):
            def b(rng, form):
                em = error_model.InsErrorModel(bool(rng.rand() < 0.5))
                args = [pva(rng, True)]
                if jac != 'body_velocity_error_jacobian':
                    k = rng.randint(3)                 # lever arm given, given as None, or left at its default
                    if k == 0:
                        args.append(as_form(np.array([1.0, -0.5, 0.3]), form))
                    elif k == 1:
                        args.append(None)
                return getattr(em, jac), args, {}
            return b
        R[f'error_model.InsErrorModel.{jac}'] = dict(build=mk(), forms=('array', 'list'), kind=None)

    @reg('error_model.propagate_errors', kind='trajectory_error_pair')
    def _(rng, form):
        tr = traj(rng, 30)
        e = pd.Series(rng.randn(9) * [10, 10, 10, 0.1, 0.1, 0.1, 0.05, 0.05, 0.1], index=ERRC)
        return error_model.propagate_errors, [tr, e, as_form(rng.randn(3) * 1e-5, form), as_form(rng.randn(3) * 1e-3, form)], {'with_altitude': bool(rng.rand() < 0.5)}
    R['error_model.propagate_errors']['forms'] = ('array', 'list')

    # ---- inertial sensor
    @reg('inertial_sensor.EstimationModel', forms=('array', 'list'))
    def _(rng, form):
        def call(b, n, w, s):
            m = isn.EstimationModel(b, n, w, s)
            return m.states, m.P, m.q, m.F, m.G, m.H, m.J, m.v, m.n_states
        return call, [as_form([1e-4, 0, 2e-4], form), as_form([1e-4, 1e-4, 0], form), as_form([1e-6, 0, 0], form),
                      as_form(1e-3 * (rng.rand(3, 3) < 0.5), form)], {}

    @reg('inertial_sensor.EstimationModel.output_matrix', forms=('array', 'list'))
    def _(rng, form):
        return est_model(rng).output_matrix, [as_form(rng.randn(4, 3), form)], {}

    @reg('inertial_sensor.EstimationModel.correct_increments+update_estimates+get_estimates+reset_estimates')
    def _(rng, form):
        inc = increments(rng)
        x = rng.randn(20) * 1e-3

        def call(dt, th, x_):
            m = est_model(np.random.RandomState(3))
            other = est_model(np.random.RandomState(4), False)       # a second instance must not see the first one's estimates
            g0 = m.get_estimates()                                   # a fresh instance, never reset: all zeros
            m.update_estimates(x_[:m.n_states])
            g1 = m.get_estimates()
            g_other = other.get_estimates()
            c_other = other.correct_increments(dt.iloc[0], th.iloc[0])
            m.reset_estimates()
            m.update_estimates(x_[:m.n_states])
            a = m.correct_increments(dt, th)
            b = m.correct_increments(dt.iloc[0], th.iloc[0])
            return a, b, m.get_estimates(), g0, g1, g_other, c_other
        return call, [inc['dt'], inc[['theta_x', 'theta_y', 'theta_z']], x], {}

    @reg('inertial_sensor.Parameters.apply', kind='same_as_arg0')
    def _(rng, form):
        T = np.eye(3) + rng.randn(3, 3) * 1e-3
        b = rng.randn(3) * 1e-2
        seed = int(rng.randint(10 ** 6)) * int(rng.rand() > 0.2)          # 0 is an integer seed like any other
        st_ = str(rng.choice(['rate', 'increment']))

        def call(readings, T_, b_, noise, walk):
            p = isn.Parameters(T_, b_, noise, walk, rng=seed)
            out = p.apply(readings, st_)
            return out, p.data_frame
        return call, [imu_table(rng)[IMU[:3]], as_form(T, form), as_form(b, form), 1e-3, as_form([1e-4, 0, 1e-4], form)], {}
    R['inertial_sensor.Parameters.apply']['forms'] = ('array', 'list')

    @reg('inertial_sensor.Parameters.from_EstimationModel')
    def _(rng, form):
        seed = int(rng.randint(10 ** 6)) * int(rng.rand() > 0.2)          # 0 is an integer seed like any other

        def call(model, readings):
            p = isn.Parameters.from_EstimationModel(model, seed)
            out = p.apply(readings, 'rate')       # the seeded generator must also drive the noise drawn later
            return p.transform, p.bias, p.noise, p.bias_walk, out, p.data_frame
        return call, [est_model(rng), imu_table(rng)[IMU[:3]]], {}

    @reg('inertial_sensor.apply_imu_parameters', kind='imu')
    def _(rng, form):
        seed = int(rng.randint(10 ** 6)) * int(rng.rand() > 0.2)          # 0 is an integer seed like any other
        st_ = str(rng.choice(['rate', 'increment']))

        def call(imu):
            return isn.apply_imu_parameters(imu, st_, isn.Parameters(bias=[1e-3, 0, 0], noise=1e-4, rng=seed),
                                            isn.Parameters(bias_walk=1e-4, rng=seed + 1))
        return call, [imu_table(rng)], {}

    # ---- measurements
    for cls_name in ('Position', 'NedVelocity', 'BodyVelocity'):
        def mk(cls_name=cls_name):
            def b(rng, form):
                tr = traj(rng)
                if cls_name == 'BodyVelocity':
                    data = pd.DataFrame(rng.randn(len(tr), 3), index=tr.index, columns=['VX', 'VY', 'VZ'])
                    m = measurements.BodyVelocity(data, 0.2)
                else:
                    arm = None if rng.rand() < 0.3 else as_form(np.array([1.0, -0.5, 0.3]), form)
                    m = getattr(measurements, cls_name)(tr.copy(), 1.5, arm)
                em = error_model.InsErrorModel(bool(rng.rand() < 0.5))
                p = tr.iloc[3].copy()
                if rng.rand() < 0.5:                    # a plain trajectory row (no body rates) is an accepted pva too
                    p['rate_x'], p['rate_y'], p['rate_z'] = 0.1, 0.2, -0.1
                return (lambda m_, t_, p_, em_: (m_.compute_matrices(t_, p_, em_), m_.compute_matrices(t_ + 0.03, p_, em_))), [m, float(tr.index[3]), p, em], {}
            return b
        R[f'measurements.{cls_name}.compute_matrices'] = dict(build=mk(), forms=('array', 'list'), kind=None)

    for cls_name in ('Position', 'NedVelocity', 'BodyVelocity'):
        def mk(cls_name=cls_name):
            def b(rng, form):
                tr = traj(rng)
                tr.index.name = None
                if cls_name == 'BodyVelocity':
                    data = pd.DataFrame(rng.randn(len(tr), 3), index=tr.index, columns=['VX', 'VY', 'VZ'])
                    return (lambda d, sd: (lambda m: (m.data, m.R))(measurements.BodyVelocity(d, sd))), [data, 0.2], {}
                return (lambda d, sd, arm: (lambda m: (m.data, m.R, m.imu_to_antenna_b))(getattr(measurements, cls_name)(d, sd, arm))), \
                    [tr, 1.5, as_form(np.array([1.0, -0.5, 0.3]), form)], {}
            return b
        R[f'measurements.{cls_name}'] = dict(build=mk(), forms=('array', 'list'), kind=None)

    # ---- sim
    @reg('sim.generate_imu', forms=('array', 'list', 'frame'), kind='traj_imu')
    def _(rng, form):
        tr = traj(rng, 30)
        st_ = str(rng.choice(['rate', 'increment']))
        mode = int(rng.randint(3))
        t = np.asarray(tr.index, float)
        lla = as_form(tr[['lat', 'lon', 'alt']].values, form, ['lat', 'lon', 'alt'])
        rph = as_form(tr[['roll', 'pitch', 'heading']].values, form, ['roll', 'pitch', 'heading'])
        vel = as_form(tr[['VN', 'VE', 'VD']].values, form, ['VN', 'VE', 'VD'])
        if mode == 0:
            return sim.generate_imu, [as_form(t, 'array' if form == 'frame' else form), lla, rph, vel, st_], {}
        if mode == 1:
            return sim.generate_imu, [as_form(t, 'array' if form == 'frame' else form), lla, rph], {'sensor_type': st_}
        return sim.generate_imu, [as_form(t, 'array' if form == 'frame' else form), as_form(tr[['lat', 'lon', 'alt']].values[0], 'list' if form == 'list' else 'array'), rph, vel, st_], {}

    # the synthesiser differentiates inertial position twice: its readings carry rounding noise ~ulp(6.4e6)/h^2 (C03), and a
    # different memory layout of an equal input (F- vs C-ordered) changes summation order: measured 2.8e-13 m/s^2 at h = 0.1
    R['sim.generate_imu']['form_tol'] = 128 * 9.3e-10 / 0.1 ** 2 * 1e-3

    @reg('sim.generate_sine_velocity_motion', forms=('array', 'list'), kind='traj_imu')
    def _(rng, form):
        lla0 = [rng.uniform(-80, 80), rng.uniform(-180, 180), rng.uniform(-500, 20000)]
        vel = rng.uniform(-30, 30, 3) * [1, 1, 0.2]
        amp = [rng.uniform(0, 3, 3) * [1, 1, 0.1], np.zeros(3), np.array([0.0, rng.uniform(0.5, 3), 0.0])][rng.randint(3)]
        kw = {'velocity_change_amplitude': as_form(amp, form), 'sensor_type': str(rng.choice(['rate', 'increment']))}
        k = rng.randint(4)
        if k == 1:
            del kw['velocity_change_amplitude']                 # documented default 0
        elif k == 2:
            kw['velocity_change_period'] = float(rng.uniform(2, 100))
            kw['velocity_change_phase_offset'] = as_form(rng.uniform(-180, 180, 3), form)
        return sim.generate_sine_velocity_motion, [float(rng.choice([0.1, 0.05])), float(rng.choice([5.0, 3.0])), as_form(lla0, form), as_form(vel, form)], kw

    for g, cols in (('generate_position_measurements', ['lat', 'lon', 'alt']), ('generate_ned_velocity_measurements', ['VN', 'VE', 'VD']),
                    ('generate_body_velocity_measurements', ['VX', 'VY', 'VZ'])):
        def mk(g=g, cols=cols):
            def b(rng, form):
                seed = int(rng.randint(10 ** 6)) * int(rng.rand() > 0.2)          # 0 is an integer seed like any other
                return (lambda tr: getattr(sim, g)(tr, 1.5, seed)), [traj(rng)], {}
            return b
        R[f'sim.{g}'] = dict(build=mk(), forms=('array',), kind='cols:' + ','.join(cols))

    @reg('sim.generate_pva_error', kind='pva_error')
    def _(rng, form):
        seed = int(rng.randint(10 ** 6)) * int(rng.rand() > 0.2)          # 0 is an integer seed like any other
        return (lambda: sim.generate_pva_error(10.0, 0.5, 0.2, 1.0, seed)), [], {}

    @reg('sim.perturb_pva', kind='pva')
    def _(rng, form):
        return sim.perturb_pva, [pva(rng), pd.Series(rng.randn(9), index=ERRC)], {}

    @reg('sim.Turntable.rotate+rest')
    def _(rng, form):
        def call(lla, rph):
            tt = sim.Turntable(lla, rph, 0.01)
            tt.rotate('inner', 90.0)
            tt.rest(3.0)
            tt.rotate('outer', -45.0, 10.0, 5.0, 'x')
            return tt.time, tt.inner_angle, tt.outer_angle, [a[:6] for a in tt.actions]
        return call, [as_form([50.0, 30.0, 100.0], form), as_form([0.1, -0.2, 30.0], form)], {}
    R['sim.Turntable.rotate+rest']['forms'] = ('array', 'list')

    # ---- filters
    def filt(which):
        def b(rng, form):
            p = pva(rng)
            p.name = 0.0
            wa = bool(rng.rand() < 0.5)
            if not wa:
                p['VD'] = 0.0
            inc = increments(rng, 40)
            truth = strapdown.Integrator(p, wa).integrate(inc)
            seed = int(rng.randint(10 ** 6)) * int(rng.rand() > 0.2)          # 0 is an integer seed like any other
            # the measurement tables cover MORE than the processed span (rows before the start and after the end)
            def longer(rows):
                ext = pd.concat([rows.iloc[:2], rows, rows.iloc[-2:]])
                ext.index = np.concatenate([rows.index[:2] - 100.0, rows.index, rows.index[-2:] + 100.0])
                return ext
            ms = [measurements.Position(longer(sim.generate_position_measurements(truth.iloc[5::10], 2.0, seed)), 2.0),
                  measurements.NedVelocity(longer(sim.generate_ned_velocity_measurements(truth.iloc[8::10], 0.2, seed + 1)), 0.2, np.array([0.5, 0.1, -0.2]))]
            gm, am = est_model(rng), est_model(rng, False)
            if which == 'feedback':
                return filters.run_feedback_filter, [p, 5.0, 0.5, 0.5, 1.0, inc, gm, am, ms], {'time_step': 0.3, 'with_altitude': wa}
            start = sim.perturb_pva(p, pd.Series([3, -2, 1.0 if wa else 0, 0.1, 0.1, 0, 0.1, 0.1, 0.2], index=ERRC))
            start.name = 0.0
            comp = strapdown.Integrator(start, wa).integrate(inc)
            return filters.run_feedforward_filter, [truth, comp, 5.0, 0.5, 0.5, 1.0, gm, am, ms], {'increments': inc, 'time_step': 0.3, 'with_altitude': wa}
        return b
    # entries whose listed arguments may be given as ONE item instead of a stack: the result must be row 0 of the stacked result
    for nm, idx in {'earth.principal_radii': (0, 1), 'earth.gravity': (0, 1), 'earth.gravity_n': (0, 1), 'earth.gravitation_ecef': (0,),
                    'earth.curvature_matrix': (0, 1), 'earth.rate_n': (0,), 'transform.lla_to_ecef': (0,), 'transform.ecef_to_lla': (0,),
                    'transform.perturb_lla': (0, 1), 'transform.compute_lla_difference': (0, 1), 'transform.mat_en_from_ll': (0, 1),
                    'transform.mat_from_rph': (0,), 'transform.mat_to_rph': (0,), 'util.skew_matrix': (0,), 'util.mv_prod': (0, 1),
                    'util.mm_prod': (0, 1), 'util.mm_prod_symmetric': (0, 1), 'util.to_180_range': (0,),
                    'inertial_sensor.EstimationModel.output_matrix': (0,),
                    'error_model.InsErrorModel.system_matrices[trajectory]': (0,),
                    'error_model.InsErrorModel.transform_to_output[trajectory]': (0,)}.items():
        R[nm]['single'] = idx
    R['filters.run_feedback_filter'] = dict(build=filt('feedback'), forms=('array',), kind='filter')
    R['filters.run_feedforward_filter'] = dict(build=filt('feedforward'), forms=('array',), kind='filter')
    return R


_REG = None


def get_registry():
    global _REG
    if _REG is None:
        _REG = registry()
    return _REG


NAMES = None


def names():
    global NAMES
    if NAMES is None:
        NAMES = sorted(get_registry().keys())
    return NAMES


# ------------------------------------------------------------------------------ schema checks
def check_schema(ctx, name, kind, args, out):
    if kind is None:
        return
    if kind == 'trajectory':
        ctx.check(isinstance(out, pd.DataFrame) and list(out.columns) == TRAJ, f'schema:{name}', lambda: str(list(out.columns)))
    elif kind == 'increments':
        ctx.check(list(out.columns) == gen.INC_COLS and np.array_equal(np.asarray(out.index), np.asarray(args[0].index)[1:]), f'schema:{name}', '')
    elif kind == 'trajectory_error':
        ctx.check(isinstance(out, pd.DataFrame) and list(out.columns) == ERRC, f'schema:{name}', lambda: str(list(out.columns)))
    elif kind == 'pva_error':
        ctx.check(isinstance(out, pd.Series) and list(out.index) == ERRC, f'schema:{name}', lambda: str(list(out.index)))
    elif kind == 'pva':
        ctx.check(isinstance(out, pd.Series) and list(out.index) == list(args[0].index), f'schema:{name}', lambda: str(list(out.index)))
    elif kind == 'same_as_arg0':
        o = out[0] if isinstance(out, tuple) else out
        ctx.check(list(o.columns) == list(args[0].columns) and o.index.equals(args[0].index), f'schema:{name}', lambda: str(list(o.columns)))
    elif kind == 'same_columns_as_arg0':
        ctx.check(list(out.columns) == list(args[0].columns), f'schema:{name}', lambda: str(list(out.columns)))
    elif kind == 'ned_frame':
        ctx.check(list(out.columns) == ['north', 'east', 'down'] and out.index.equals(args[0].index), f'schema:{name}', '')
    elif kind == 'imu':
        ctx.check(list(out.columns) == IMU and out.index.equals(args[0].index), f'schema:{name}', lambda: str(list(out.columns)))
    elif kind == 'traj_imu':
        tr, imu = out
        ctx.check(list(tr.columns) == TRAJ and list(imu.columns) == IMU and tr.index.equals(imu.index) and tr.index.name == 'time', f'schema:{name}',
                  lambda: f'{list(tr.columns)} {list(imu.columns)} {tr.index.name}')
    elif kind.startswith('cols:'):
        cols = kind[5:].split(',')
        ctx.check(list(out.columns) == cols and out.index.equals(args[0].index), f'schema:{name}', lambda: str(list(out.columns)))
    elif kind == 'trajectory_error_pair':
        te, me = out
        ctx.check(list(te.columns) == ERRC and te.index.equals(args[0].index) and me.index.equals(args[0].index), f'schema:{name}', '')
    elif kind == 'filter':
        ctx.check(list(out.trajectory.columns) == TRAJ and list(out.trajectory_sd.columns) == ERRC, f'schema:{name}', '')
        gm, am = args[6], args[7]
        ctx.check(list(out.gyro.columns) == gm.states and list(out.gyro_sd.columns) == gm.states and list(out.accel.columns) == am.states
                  and list(out.accel_sd.columns) == am.states, f'schema_sensor_tables:{name}', '')
        for idx in (out.gyro.index, out.gyro_sd.index, out.accel.index, out.accel_sd.index):
            ctx.check(np.array_equal(np.asarray(idx, float), np.asarray(out.trajectory_sd.index, float)), f'schema_sensor_index:{name}', '')
        ctx.check(set(out.innovations) == {'Position', 'NedVelocity'}, f'schema_innovations:{name}', '')


def execute(ctx, name, sub, form):
    """Build, snapshot, call twice, compare. Returns the first output."""
    e = get_registry()[name]
    fn, args, kwargs = e['build'](np.random.RandomState(sub), form)
    is_filter = e['kind'] == 'filter'
    before = [snap(a) for a in args] + [snap(kwargs)]
    if is_filter:
        before[6] = model_estimates_free(args[6])
        before[7] = model_estimates_free(args[7])
    out1 = ctx.sut(fn, *args, **kwargs)
    after = [snap(a) for a in args] + [snap(kwargs)]
    if is_filter:
        after[6] = model_estimates_free(args[6])
        after[7] = model_estimates_free(args[7])
    for i, (b, a) in enumerate(zip(before, after)):
        ctx.check(b == a, f'argument_modified:{name}', lambda: f'argument {i} of {name} was modified by the call (form {form})')
    # same call again on freshly built, equal inputs
    fn2, args2, kwargs2 = e['build'](np.random.RandomState(sub), form)
    out2 = ctx.sut(fn2, *args2, **kwargs2)
    r = out_equal(out1, out2)
    ctx.check(r is None, f'not_deterministic:{name}', lambda: f'{name}: two calls with equal inputs differ: {r}')
    # and once more on the SAME argument objects (hidden state in arguments / models)
    out3 = ctx.sut(fn, *args, **kwargs)
    r3 = out_equal(out1, out3)
    ctx.check(r3 is None, f'not_repeatable:{name}', lambda: f'{name}: repeating the call on the same argument objects differs: {r3}')
    check_schema(ctx, name, e['kind'], args, out1)
    check_history_free(ctx, name, sub, form, out1, e)
    return out1, args


def entry_strategy():
    return st.fixed_dictionaries({'entry': st.sampled_from(list(range(len(names())))), 'sub': st.integers(0, 2 ** 31 - 1), 'form': st.integers(0, 11)})


INT_ENTRIES = ('earth.principal_radii', 'earth.gravity', 'earth.gravity_n', 'earth.gravitation_ecef', 'earth.curvature_matrix',
               'earth.rate_n', 'transform.lla_to_ecef', 'transform.ecef_to_lla', 'transform.perturb_lla', 'transform.mat_en_from_ll',
               'transform.mat_from_rph', 'util.mm_prod', 'util.mm_prod_symmetric', 'util.mv_prod', 'util.skew_matrix',
               'util.compute_rms', 'util.to_180_range', 'sim.generate_sine_velocity_motion')


def entry_forms(name):
    """Declared forms, plus tuples wherever lists are accepted, plus integer-typed arguments for the entries whose arguments
    stay valid when rounded to integers."""
    f = tuple(get_registry()[name]['forms'])
    if 'list' in f:
        f += ('tuple',)
        if name in INT_ENTRIES:
            f += ('array+int', 'list+int', 'array+int1')
    return f


def base_form(name, form):
    b = get_registry()[name]['forms'][0]
    return b + '+ival1' if form.endswith('+int1') else b + '+ival' if form.endswith('+int') else b


def _scribble(x, done):
    """Overwrite every writable float ndarray inside a result in place; `done` collects (array, saved copy) pairs so that the
    values can be put back (a result that is a window onto shared state must not stay corrupted for the rest of the run)."""
    if isinstance(x, np.ndarray):
        if x.flags.writeable and x.dtype.kind == 'f' and x.size:
            done.append((x, x.copy()))
            x[...] = 12345.678
    elif isinstance(x, (list, tuple)):
        for v in x:
            _scribble(v, done)
    elif isinstance(x, dict):
        for v in x.values():
            _scribble(v, done)


def check_history_free(ctx, name, sub, form, out1, e):
    """(i) The result for given arguments does not depend on which OTHER arguments the callable saw just before (a result
    remembered under too coarse a key); (ii) what a caller does to a returned array does not change later results for equal
    arguments (a result that is a window onto hidden shared state). A result that aliases one of the ARGUMENTS (or the object
    the method is bound to) is the caller's own data and is not judged."""
    build = e['build']
    if e['kind'] != 'filter':
        kept = snap(out1)
        for k in (1, 2, 3):
            fnp, argsp, kwp = build(np.random.RandomState(sub + k), form)
            ctx.sut(fnp, *argsp, **kwp)
            # (0) the result handed out earlier is the caller's: a later call with other arguments (of the same shapes) must not
            # change it (a result assembled in a reused work array would otherwise also hide (i): the old object then holds
            # the newest values)
            ctx.check(snap(out1) == kept, f'earlier_result_changed:{name}',
                      lambda: f'{name}: a result returned earlier changed when the callable was called again with other arguments')
            fn4, args4, kw4 = build(np.random.RandomState(sub), form)
            r = out_equal(out1, ctx.sut(fn4, *args4, **kw4))
            ctx.check(r is None, f'depends_on_previous_call:{name}',
                      lambda: f'{name}: the result for the same arguments differs after a call with other arguments ({r})')
    fn, args, kw = build(np.random.RandomState(sub), form)
    held = [args, kw] + ([fn.__self__] if hasattr(fn, '__self__') else [])
    res = ctx.sut(fn, *args, **kw)
    before_res, before_args = snap(res), snap(held)
    done = []
    _scribble(res, done)
    if not done:
        return
    try:
        if snap(held) != before_args:
            ctx.label('result_aliases_argument')
            return
        fn2, args2, kw2 = build(np.random.RandomState(sub), form)
        same = snap(ctx.sut(fn2, *args2, **kw2)) == before_res
    finally:
        for arr, saved in done:
            arr[...] = saved
    ctx.check(same, f'result_aliases_hidden_state:{name}',
              lambda: f'{name}: after the caller overwrote a returned array, a call with equal arguments returns different values')
    ctx.label('result_overwrite_checked')


# entries whose DataFrame arguments are TYPED tables (Trajectory, Imu, Increments: columns documented by name): the same table
# with its columns in another order is the same input, and a table result holds the same values under the same labels
LABELLED_TABLE_ENTRIES = ('strapdown.compute_increments_from_imu', 'strapdown.Integrator.integrate', 'transform.translate_trajectory',
                          'transform.compute_state_difference', 'transform.smooth_state', 'transform.resample_state',
                          'inertial_sensor.apply_imu_parameters', 'error_model.propagate_errors',
                          'sim.generate_position_measurements', 'sim.generate_ned_velocity_measurements', 'sim.generate_body_velocity_measurements')


def _by_label(x):
    """Table results with their columns sorted by label (order of the columns may follow the input)."""
    if isinstance(x, pd.DataFrame):
        return x[sorted(x.columns, key=str)]
    if isinstance(x, (tuple, list)):
        return type(x)(_by_label(v) for v in x)
    return x


def check_column_order(ctx, name, sub, form, out):
    if name not in LABELLED_TABLE_ENTRIES:
        return
    e = get_registry()[name]
    fn, args, kw = e['build'](np.random.RandomState(sub), form)
    changed = False
    for i, a in enumerate(args):
        if isinstance(a, pd.DataFrame) and a.shape[1] >= 2:
            args[i] = a[list(a.columns[::-1])]
            changed = True
    if not changed:
        return
    out_p = ctx.sut(fn, *args, **kw)
    r = out_equal(_by_label(out), _by_label(out_p))
    ctx.check(r is None, f'column_order_dependent:{name}', lambda: f'{name}: the same labelled table with its columns reversed gives a different result ({r})')
    ctx.label('column_order_checked')


def run_entry(case, ctx):
    nm = names()
    name = case.get('name') or nm[case['entry'] % len(nm)]      # saved replays pin the callable by name
    e = get_registry()[name]
    forms = entry_forms(name)
    form = forms[case['form'] % len(forms)]
    ctx.label(f'callable={name}', f'form={form}')
    out, args = execute(ctx, name, case['sub'], form)
    # forms agree
    if len(forms) > 1:
        base = base_form(name, form)
        if form != base:
            fn0, args0, kw0 = e['build'](np.random.RandomState(case['sub']), base)
            out0 = fn0(*args0, **kw0)
            r = close_forms(out, out0, abs_tol=e.get('form_tol', 0.0))
            ctx.check(r is None, f'forms_disagree:{name}', lambda: f'{name}: form {form} vs {base}: {r}')
    check_single(ctx, name, case['sub'], form, out)
    check_inplace_reuse(ctx, name, case['sub'], form)
    check_column_order(ctx, name, case['sub'], form, out)
    ctx.mark_nontrivial(any(isinstance(a, (np.ndarray, pd.DataFrame, pd.Series)) for a in args))


def first_item(x):
    if isinstance(x, (pd.DataFrame, pd.Series)):
        return x.iloc[0]
    if isinstance(x, (list, tuple, np.ndarray)):
        return x[0]
    return x


def first_row(out):
    if isinstance(out, tuple):
        return tuple(first_row(o) for o in out)
    if isinstance(out, (pd.DataFrame, pd.Series)):
        return out.iloc[0]
    return np.asarray(out)[0]


def check_single(ctx, name, sub, form, out_stacked):
    """single (one item) form of the stackable arguments gives row 0 of the stacked result."""
    e = get_registry()[name]
    if 'single' not in e:
        return
    fn, args, kw = e['build'](np.random.RandomState(sub), form)
    args = [first_item(a) if i in e['single'] else a for i, a in enumerate(args)]
    out1 = ctx.sut(fn, *args, **kw)
    if name == 'inertial_sensor.EstimationModel.output_matrix' and not fn.__self__.scale_misal_modelled:
        # without scale/misalignment states the matrix does not depend on the readings and is returned unstacked for any input
        # (thorough-tier false alarm of this harness, DESIGN 9.3): the two results are compared as they are
        r = close_forms(out1, out_stacked)
    else:
        r = close_forms(out1, first_row(out_stacked))
    ctx.check(r is None, f'single_form_disagrees:{name}', lambda: f'{name}: one item vs row 0 of the stack (form {form}): {r}')
    ctx.label('single_vs_stacked_checked')


def _transfer(dst, src):
    """Make the object dst hold the values of src IN PLACE (same identity). False when that is impossible."""
    if isinstance(dst, np.ndarray):
        if not (isinstance(src, np.ndarray) and dst.shape == src.shape and dst.dtype == src.dtype and dst.flags.writeable):
            return False
        np.copyto(dst, src)
        return True
    if isinstance(dst, pd.DataFrame):
        if not (isinstance(src, pd.DataFrame) and dst.shape == src.shape and list(dst.columns) == list(src.columns)
                and list(dst.dtypes) == list(src.dtypes) and all(k == 'f' for k in (d.kind for d in dst.dtypes))):
            return False
        dst.iloc[:, :] = src.values
        dst.index = src.index.copy()
        return True
    if isinstance(dst, pd.Series):
        if not (isinstance(src, pd.Series) and dst.shape == src.shape and list(dst.index) == list(src.index) and dst.dtype == src.dtype
                and dst.dtype.kind == 'f'):
            return False
        dst.iloc[:] = src.values
        dst.name = src.name
        return True
    if isinstance(dst, list):
        if not (isinstance(src, list) and len(dst) == len(src)):
            return False
        dst[:] = src
        return True
    if isinstance(dst, (int, float, str, bool, type(None), np.generic, tuple)):
        return 'replace'          # immutable: the caller simply passes the new value
    return snap(dst) == snap(src)


def check_inplace_reuse(ctx, name, sub, form):
    """A caller that keeps its buffers and overwrites them in place before the next call (preallocated matrices, a table
    updated in a loop) must get the answer for the NEW values: no result may be remembered by argument identity."""
    e = get_registry()[name]
    if e['kind'] == 'filter':
        return
    fn, args, kw = e['build'](np.random.RandomState(sub), form)
    for step in range(1, 9):          # builders may draw their sizes: look for a second argument set of the same shapes
        fn2, args2, kw2 = e['build'](np.random.RandomState(sub + step), form)
        if len(args) != len(args2) or sorted(kw) != sorted(kw2):
            continue
        probe_a, probe_k = e['build'](np.random.RandomState(sub), form)[1:]
        how = [_transfer(a, b) for a, b in zip(probe_a, args2)]
        howk = {k: _transfer(probe_k[k], kw2[k]) for k in kw}
        if all(how) and all(howk.values()) and any(h is True for h in how + list(howk.values())):
            break
    else:
        ctx.label('inplace_reuse_not_applicable')
        return
    # order matters for a remembered result: the reference call comes first, then the call that could be remembered, then the
    # same objects with new contents
    fresh = ctx.sut(fn2, *args2, **kw2)
    ctx.sut(fn, *args, **kw)
    for a, b in zip(args, args2):
        _transfer(a, b)
    for k in kw:
        _transfer(kw[k], kw2[k])
    args = [b if h == 'replace' else a for a, b, h in zip(args, args2, how)]
    kw = {k: (kw2[k] if howk[k] == 'replace' else kw[k]) for k in kw}
    again = ctx.sut(fn2, *args, **kw)
    r = out_equal(again, fresh)
    ctx.check(r is None, f'stale_result_after_inplace_change:{name}',
              lambda: f'{name}: arguments overwritten in place between two calls: the second result differs from a call with fresh, equal arguments ({r})')
    ctx.label('inplace_reuse_checked')


def sweep_strategy():
    return st.fixed_dictionaries({'sub': st.integers(0, 2 ** 31 - 1), 'form': st.integers(0, 11)})


def run_sweep(case, ctx):
    """Every registry entry once (so that no entry depends on the luck of the draw in a quick run)."""
    for name in names():
        forms = entry_forms(name)
        form = forms[case['form'] % len(forms)]
        out, _ = execute(ctx, name, case['sub'], form)
        check_single(ctx, name, case['sub'], form, out)
        check_inplace_reuse(ctx, name, case['sub'], form)
        check_column_order(ctx, name, case['sub'], form, out)
    ctx.label(f'entries={len(names())}')
    ctx.mark_nontrivial(True)


def seq_strategy():
    # a third element True sends the call to the case's `focus` entry: histories that return to ONE callable with different
    # arguments are where a result remembered under too coarse a key shows
    return st.fixed_dictionaries({'calls': st.lists(st.tuples(st.integers(0, 10 ** 6), st.integers(0, 50), st.booleans()), min_size=3, max_size=12),
                                  'focus': st.integers(0, 10 ** 6),
                                  'reissue': st.lists(st.integers(0, 11), min_size=1, max_size=6)})


def run_sequence(case, ctx):
    nm = names()
    first = []
    for call in case['calls']:
        ei, sub = call[0], call[1]
        if len(call) > 2 and call[2]:
            ei = case.get('focus', ei)
        name = nm[ei % len(nm)]
        e = get_registry()[name]
        fn, args, kw = e['build'](np.random.RandomState(sub), e['forms'][0])
        out = ctx.sut(fn, *args, **kw)
        first.append((name, sub, out, snap(out)))
    for j in case['reissue']:
        name, sub, out, _ = first[j % len(first)]
        e = get_registry()[name]
        fn, args, kw = e['build'](np.random.RandomState(sub), e['forms'][0])
        again = ctx.sut(fn, *args, **kw)
        r = out_equal(out, again)
        ctx.check(r is None, f'hidden_state:{name}', lambda: f'{name}: result after other calls differs from its first result: {r}')
    # a result handed out earlier stays what it was (no result is a window onto a buffer that later calls overwrite)
    for name, sub, out, before in first:
        ctx.check(snap(out) == before, f'earlier_result_changed:{name}', lambda: f'{name}: the object returned earlier changed during later calls')
    ctx.label(f'calls={len(case["calls"])}')
    ctx.mark_nontrivial(len({c[0] % len(nm) for c in case['calls']}) >= 3)


CLAUSES = [
    Clause('sweep', sweep_strategy, run_sweep, quick=(12, 4), thorough=(160, 16), shrink_quick=False),
    Clause('registry', entry_strategy, run_entry, quick=(320, 8), thorough=(12000, 16)),
    Clause('sequence', seq_strategy, run_sequence, quick=(48, 8), thorough=(1600, 16), shrink_quick=False),
]


def evidence_extra(tier, per_clause):
    import inspect
    import pyins
    covered = {n.split('[')[0] for n in names()}
    public = []
    for mod_name in ('earth', 'error_model', 'filters', 'inertial_sensor', 'kalman', 'measurements', 'sim', 'strapdown', 'transform', 'util'):
        mod = getattr(pyins, mod_name)
        for k, v in vars(mod).items():
            if k.startswith('_') or getattr(v, '__module__', None) != mod.__name__:
                continue
            if inspect.isfunction(v):
                public.append(f'{mod_name}.{k}')
            elif inspect.isclass(v):
                for mk, mv in vars(v).items():
                    if not mk.startswith('_') and inspect.isfunction(mv):
                        public.append(f'{mod_name}.{v.__name__}.{mk}')
    def is_cov(p):
        leaf = p.split('.')[-1]
        return any(p == c or c.startswith(p) or leaf in c.split('.')[-1].split('+') for c in covered)
    unc = sorted(p for p in public if not is_cov(p))
    c = per_clause.get('registry')
    called = sorted(k[9:] for k in (c['labels'] if c else {}) if k.startswith('callable='))
    return {'registry_entries': len(names()), 'entries_called_this_run': len(called), 'public_callables_found': len(public), 'uncovered': unc}


def warmup():
    from . import c02
    c02.warmup()
    get_registry()
