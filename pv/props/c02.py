"""C02 - integrator result is independent of call history (chunks, predict, restart).

Generated operation sequences (as data, so a shrunk failure is a JSON replay) are interpreted
against a real Integrator with a small initial buffer capacity and against a model: per
segment (since construction / since the last set_pva) a FRESH integrator with the default
capacity integrating all the segment's increments in ONE call. Comparison is bitwise.
Kernel bounds checking (NUMBA_BOUNDSCHECK=1, set by ./check) turns a capacity off-by-one
into an IndexError instead of silent heap corruption.
"""
import numpy as np
import pandas as pd
from hypothesis import strategies as st

from ..core import Clause, Violation
from .. import gen
from ..tol import bits_equal

PROPERTY = 'C02'
RULE = ('Cases: initial PVA (|lat|<=85, any attitude), altitude mode, Integrator.INITIAL_SIZE in '
        '{1,2,3,4,8}, an increments table of up to 48 rows (irregular dt, |theta|<=0.5 rad, |dv|<=5 m/s, '
        'zero rows included) and a generated list of up to 30 operations: integrate(k rows) with k from '
        '{0, 1, up-to-capacity-1, exactly-to-capacity, capacity+1, random}, predict(next row | scaled next '
        'row), get_pva, get_time (the caller may overwrite any returned object in place afterwards), set_pva(generated state | the current state itself | a position/velocity-only change of it; named or unnamed). Model = fresh '
        'single-shot integrator per segment; bitwise comparison of values, index and return values after '
        'every operation. Non-trivial = history with a chunk straddling a buffer-growth boundary, or '
        'predict followed by integrate of the same row, or set_pva followed by integration, or an empty '
        'chunk between non-empty ones; distinct by SHA-1 of the case.')
ASSUMPTIONS = ['NUMBA_BOUNDSCHECK=1 makes out-of-bounds kernel writes raise',
               'Integrator.INITIAL_SIZE is the documented-by-source way to reach small capacities; restored after each case',
               'in 2D mode set_pva states are generated with VD=0 only while finding C13/set_pva is open (see known_findings.json); with the fix in place arbitrary VD is generated']

N_ROWS = 48


def op_strategy():
    integ = st.fixed_dictionaries({'op': st.just('integrate'),
                                   'kind': st.sampled_from(['zero', 'one', 'cap-1', 'cap', 'cap+1', 'cap+1', 'rand', 'rand']),
                                   'k': st.integers(0, 12), 'scribble': st.sampled_from([False, False, True]),
                                   'layout': st.sampled_from([0, 0, 0, 1, 2])})      # 1: columns reversed, 2: an extra leading column
    pred = st.fixed_dictionaries({'op': st.just('predict'),
                                  'scale': st.sampled_from([1.0, 1.0, 0.5, 0.25, 0.0, 0.999]),
                                  'scribble': st.sampled_from([False, False, True]),
                                  'layout': st.sampled_from([0, 0, 0, 1, 2])})
    return st.one_of(integ, integ, integ, pred, pred, st.fixed_dictionaries({'op': st.just('get_pva'), 'scribble': st.booleans()}), st.just({'op': 'get_time'}),
                     st.fixed_dictionaries({'op': st.just('set_pva'), 'pva': gen.pva_strategy(),
                                            'permute': st.booleans(),
                                            'source': st.sampled_from(['generated', 'generated', 'current', 'current_posvel'])}))


def case_strategy(modes=(True, False)):
    def mk():
        return st.fixed_dictionaries({
            'with_altitude': st.sampled_from(list(modes)),
            'flag_form': st.sampled_from(['bool', 'bool', 'numpy_bool']),      # the mode flag as a Python bool or as numpy.bool_ (e.g. an element of a boolean array)
            'cap': st.sampled_from([1, 2, 3, 4, 8]),
            'pva': gen.pva_strategy(),
            'sub': st.integers(0, 2 ** 31 - 1),
            'vertical': st.sampled_from([0.0, -9.8, 30.0]),
            'ops': st.lists(op_strategy(), min_size=4, max_size=30),
        })
    return mk


def set_pva_vd_allowed():
    """True when the C13 set_pva finding is fixed/absent: then arbitrary VD is supplied in 2D."""
    from ..core import load_known
    return not any(k.get('status') == 'known' and k.get('id') == 'C13-set_pva-vd' for k in load_known())


class Machine:
    """Interprets a case against the real Integrator; subclasses add oracles via hooks."""

    def __init__(self, case, ctx):
        from pyins import strapdown
        self.sd = strapdown
        self.case = case
        self.ctx = ctx
        self.with_altitude = np.bool_(case['with_altitude']) if case.get('flag_form', 'bool') == 'numpy_bool' else case['with_altitude']
        self.table = gen.increments_table(case['sub'], N_ROWS, t0=0.0, vertical=case['vertical'])
        self.pos = 0
        self.flags = set()
        self.last_pred_row = None
        self.prev_nonempty = False
        self.pending_empty = False

    def start(self):
        sd = self.sd
        self.default_cap = sd.Integrator.INITIAL_SIZE
        sd.Integrator.INITIAL_SIZE = self.case['cap']
        pva = gen.to_pva(self.case['pva'], 0.0)
        self.initial_pva = pva.copy()
        try:
            self.integ = self.ctx.sut(sd.Integrator, pva, self.with_altitude)
        finally:
            sd.Integrator.INITIAL_SIZE = self.default_cap
        self.ctx.check(bits_equal(pva.values, self.initial_pva.values), 'input_modified:constructor', 'pva changed')
        self.capacity = self.case['cap']
        self.on_start(pva)

    def n_for(self, op):
        size = len(self.integ.trajectory)
        room = max(self.capacity - size, 0)
        kind = op['kind']
        k = {'zero': 0, 'one': 1, 'cap-1': max(room - 1, 0), 'cap': room, 'cap+1': room + 1,
             'rand': op['k']}[kind]
        return min(k, N_ROWS - self.pos)

    def run(self):
        self.start()
        ctx = self.ctx
        for op in self.case['ops']:
            name = op['op']
            if name == 'integrate':
                k = self.n_for(op)
                chunk = self.table.iloc[self.pos:self.pos + k]
                # increments are addressed by column label: the same rows with the columns in another order, or behind an
                # unrelated leading column, are the same increments - whatever layout earlier calls used
                lay = op.get('layout', 0)
                if lay == 1:
                    chunk = chunk[list(chunk.columns[::-1])]
                    self.flags.add('column_layout_changes')
                elif lay == 2:
                    chunk = chunk.copy()
                    chunk.insert(0, 'temperature', 21.5)
                    self.flags.add('column_layout_changes')
                snap = chunk.copy()
                size_before = len(self.integ.trajectory)
                ret = ctx.sut(self.integ.integrate, chunk)
                ctx.check(chunk.equals(snap), 'input_modified:integrate', 'increments changed')
                if size_before + k > self.capacity:
                    self.flags.add('straddles_capacity')
                    self.capacity = max(2 * self.capacity, size_before + k)
                if k == 0:
                    if self.prev_nonempty:
                        self.pending_empty = True
                    self.flags.add('empty_chunk')
                else:
                    if self.pending_empty:
                        self.flags.add('empty_between_nonempty')
                    self.pending_empty = False
                    self.prev_nonempty = True
                    if self.last_pred_row == self.pos:
                        self.flags.add('predict_then_integrate')
                    if 'after_set_pva' in self.flags:
                        self.flags.add('set_pva_then_integrate')
                self.on_integrate(chunk, ret)
                self.scribble(ret, op)
                self.pos += k
                self.last_pred_row = None
            elif name == 'predict':
                if self.pos >= N_ROWS:
                    continue
                row = self.table.iloc[self.pos]
                if op['scale'] != 1.0:
                    row = op['scale'] * row
                    row.name = self.integ.get_time() + row['dt']
                else:
                    self.last_pred_row = self.pos
                lay = op.get('layout', 0)
                if lay == 1:
                    row = row.iloc[::-1]
                elif lay == 2:
                    row = pd.concat([pd.Series({'temperature': 21.5}), row]).rename(row.name)
                snap = row.copy()
                before = self.snapshot()
                ret = ctx.sut(self.integ.predict, row)
                ctx.check(row.equals(snap), 'input_modified:predict', 'increment changed')
                self.check_unchanged(before, 'predict')
                self.on_predict(row, ret)
                self.scribble(ret, op)
                self.flags.add('predict')
            elif name == 'get_pva':
                before = self.snapshot()
                ret = ctx.sut(self.integ.get_pva)
                self.check_unchanged(before, 'get_pva')
                self.on_get_pva(ret)
                self.scribble(ret, op)
            elif name == 'get_time':
                before = self.snapshot()
                ret = ctx.sut(self.integ.get_time)
                self.check_unchanged(before, 'get_time')
                self.on_get_time(ret)
            elif name == 'set_pva':
                t = self.integ.get_time()
                src = op.get('source', 'generated')
                if src == 'generated':
                    pva = gen.to_pva(op['pva'], t)
                else:
                    # overwrite with the current state itself / a position-velocity-only fix (attitude bit-equal)
                    pva = self.integ.get_pva().copy()
                    if src == 'current_posvel':
                        pva['lat'] += 1e-4
                        pva['alt'] -= 2.5
                        pva['VN'] += 0.5
                        pva['VE'] -= 0.25
                    if len(self.integ.trajectory) > 1:
                        self.flags.add('set_pva_same_attitude_on_integrated_row')
                pva = self.adjust_set_pva(pva)
                if op['permute']:
                    pva.name = None       # the name of the supplied Series must not matter
                snap = pva.copy()
                ctx.sut(self.integ.set_pva, pva)
                ctx.check(pva.equals(snap), 'input_modified:set_pva', 'pva changed')
                self.on_set_pva(pva[gen.TRAJ_COLS], t)
                self.flags.add('after_set_pva')
                self.last_pred_row = None
            self.after_op(op)
        for f in self.flags:
            ctx.label(f)
        ctx.label(f"cap={self.case['cap']}", 'mode=3D' if self.with_altitude else 'mode=2D', f"flag_form={self.case.get('flag_form', 'bool')}")

    def scribble(self, ret, op):
        """The caller overwrites an object the integrator returned; nothing the integrator holds may change."""
        if not op.get('scribble'):
            return
        before = self.snapshot()
        try:
            if isinstance(ret, pd.DataFrame):
                ret.iloc[:, :] = -777.0
            else:
                ret[:] = -777.0
        except (ValueError, TypeError):
            return                       # read-only result: fine
        self.check_unchanged(before, 'caller_writing_into_returned_object')
        self.flags.add('scribbled_on_result')

    def snapshot(self):
        tr = self.integ.trajectory
        return tr.values.copy(), tr.index.copy(), list(tr.columns)

    def check_unchanged(self, before, what):
        tr = self.integ.trajectory
        self.ctx.check(bits_equal(tr.values, before[0]) and tr.index.equals(before[1]) and list(tr.columns) == before[2],
                       f'state_changed_by:{what}', f'{what} changed the stored trajectory')

    # hooks
    def adjust_set_pva(self, pva):
        return pva

    def on_start(self, pva): pass
    def on_integrate(self, chunk, ret): pass
    def on_predict(self, row, ret): pass
    def on_get_pva(self, ret): pass
    def on_get_time(self, ret): pass
    def on_set_pva(self, pva, t): pass
    def after_op(self, op): pass


class ModelMachine(Machine):
    """C02 oracle: fresh single-shot integrator per segment."""

    def on_start(self, pva):
        self.vd_ok = set_pva_vd_allowed()
        self.segments = [[pva.copy(), []]]      # [start state (named by time), list of row positions/frames]
        self.prefix = None                       # frozen rows of earlier segments (DataFrame)
        self.compare('constructor')

    def adjust_set_pva(self, pva):
        if not self.with_altitude and not self.vd_ok:
            pva = pva.copy()
            if pva.VD != 0.0:
                self.ctx.excluded['C13-set_pva-vd'] += 1
            pva.VD = 0.0
        return pva

    def model_segment(self, extra=None):
        start, chunks = self.segments[-1]
        frames = [c for c in chunks if len(c)]
        if extra is not None:
            frames = frames + [extra]
        fresh = self.sd.Integrator(start, self.with_altitude)
        if frames:
            fresh.integrate(pd.concat(frames))
        return fresh.trajectory

    def model_trajectory(self):
        seg = self.model_segment()
        if self.prefix is None:
            return seg
        return pd.concat([self.prefix, seg])

    def compare(self, what):
        tr = self.integ.trajectory
        mt = self.model_trajectory()
        ctx = self.ctx
        ctx.check(list(tr.columns) == gen.TRAJ_COLS, 'columns', str(list(tr.columns)))
        ctx.check(len(tr) == len(mt) and np.array_equal(np.asarray(tr.index, float), np.asarray(mt.index, float)),
                  f'time_index_after:{what}', lambda: f'index {list(tr.index)} expected {list(mt.index)}')
        if not bits_equal(tr.values, mt.values):
            bad = np.argwhere(tr.values.view(np.uint64) != np.ascontiguousarray(mt.values).view(np.uint64))
            r, c = bad[0]
            raise Violation(f'trajectory_differs_after:{what}',
                            f'row {r} ({tr.index[r]}) column {tr.columns[c]}: {tr.values[r, c]!r} vs model {mt.values[r, c]!r}; '
                            f'{len(bad)} differing cells')

    def on_integrate(self, chunk, ret):
        n_before = len(self.model_trajectory())
        self.segments[-1][1].append(chunk[gen.INC_COLS].copy())          # the model always sees the canonical layout
        self.compare('integrate')
        mt = self.model_trajectory()
        exp = mt.iloc[n_before - 1:]
        self.ctx.check(len(ret) == len(chunk) + 1 and bits_equal(ret.values, exp.values)
                       and np.array_equal(np.asarray(ret.index, float), np.asarray(exp.index, float)),
                       'integrate_return_value', lambda: f'returned index {list(ret.index)} expected {list(exp.index)}')

    def on_predict(self, row, ret):
        frame = row[gen.INC_COLS].to_frame().transpose()
        exp = self.model_segment(extra=frame).iloc[-1]
        self.ctx.check(isinstance(ret, pd.Series) and list(ret.index) == gen.TRAJ_COLS, 'predict_schema', str(type(ret)))
        self.ctx.check(bits_equal(ret.values, exp.values), 'predict_value',
                       lambda: f'predict {ret.values.tolist()} vs next integrate {exp.values.tolist()}')
        self.ctx.check(ret.name == row.name, 'predict_time', f'{ret.name} vs {row.name}')

    def on_get_pva(self, ret):
        exp = self.model_trajectory().iloc[-1]
        self.ctx.check(bits_equal(ret.values, exp.values) and ret.name == exp.name, 'get_pva', f'{ret.values} vs {exp.values}')

    def on_get_time(self, ret):
        exp = self.model_trajectory().index[-1]
        self.ctx.check(ret == exp, 'get_time', f'{ret} vs {exp}')

    def on_set_pva(self, pva, t):
        mt = self.model_trajectory()
        self.prefix = mt.iloc[:-1] if len(mt) > 1 else None
        start = pva.copy()
        start.name = t
        self.segments.append([start, []])
        self.compare('set_pva')


def run_history(case, ctx):
    m = ModelMachine(case, ctx)
    m.run()
    nt = {'straddles_capacity', 'predict_then_integrate', 'set_pva_then_integrate', 'empty_between_nonempty',
          'set_pva_same_attitude_on_integrated_row'}
    ctx.mark_nontrivial(bool(m.flags & nt))


def long_strategy():
    return st.fixed_dictionaries({
        'with_altitude': st.booleans(),
        'pva': gen.pva_strategy(max_lat=80.0),
        'n': st.sampled_from([1000, 1001, 1500, 2047, 2500, 3000, 4100]),
        'cuts': st.lists(st.one_of(st.floats(0.01, 0.99), st.sampled_from([0.25, 0.5, 1000 / 4100, 999 / 3000, 1024 / 2500])), min_size=1, max_size=5),
        'cap': st.sampled_from([None, None, 1000, 1024, 2048, 64]),
        'sub': st.integers(0, 2 ** 31 - 1),
    })


def run_long(case, ctx):
    """Long records (thousands of rows): one integrate() call against the same rows fed in several calls, with the default or a
    smaller buffer capacity, and predict() before every continuation. Anything counted per call (a periodic clean-up, a
    reallocation that re-derives state) shows here and not in the short histories of the other clause."""
    from pyins import strapdown
    n = case['n']
    inc = gen.increments_table(case['sub'], n, kind='uniform', theta_max=0.02, dv_max=0.2, vertical=-9.8)
    pva = gen.to_pva(case['pva'], 0.0)
    if not case['with_altitude']:
        pva['VD'] = 0.0
    default_cap = strapdown.Integrator.INITIAL_SIZE
    try:
        one = ctx.sut(strapdown.Integrator(pva, case['with_altitude']).integrate, inc)
        if case['cap'] is not None:
            strapdown.Integrator.INITIAL_SIZE = case['cap']
        cuts = sorted({min(n - 1, max(1, int(round(c * n)))) for c in case['cuts']})
        it = strapdown.Integrator(pva, case['with_altitude'])
        parts, lo = [], 0
        for hi in cuts + [n]:
            pred = ctx.sut(it.predict, inc.iloc[lo])
            ctx.check(bits_equal(pred.values.astype(float), one.iloc[lo + 1].values.astype(float)), 'long_predict_differs',
                      lambda: f'predict before row {lo + 1} of {n}: {pred.values.tolist()} vs the single call {one.iloc[lo + 1].values.tolist()}')
            parts.append(ctx.sut(it.integrate, inc.iloc[lo:hi]))
            lo = hi
        tr = it.trajectory
    finally:
        strapdown.Integrator.INITIAL_SIZE = default_cap
    ctx.check(len(tr) == n + 1 and np.array_equal(np.asarray(tr.index, float), np.asarray(one.index, float)), 'long_index', f'{len(tr)} vs {n + 1}')
    if not bits_equal(tr.values.astype(float), one.values.astype(float)):
        bad = np.argwhere(np.ascontiguousarray(tr.values.astype(float)).view(np.uint64) != np.ascontiguousarray(one.values.astype(float)).view(np.uint64))
        r, c = bad[0]
        ctx.check(False, 'long_history_dependent', f'n={n} calls cut at {cuts} capacity {case["cap"]}: first difference at row {r} column {tr.columns[c]}: '
                  f'{tr.values[r, c]!r} vs single call {one.values[r, c]!r}; {len(bad)} cells differ')
    ctx.label(f'calls={len(cuts) + 1}', f'capacity={case["cap"]}', 'n>=2000' if n >= 2000 else 'n<2000')
    ctx.mark_nontrivial(len(cuts) >= 1 and n >= 1000)


CLAUSES = [
    Clause('history', case_strategy(), run_history, quick=(240, 8), thorough=(8000, 16)),
    Clause('long', long_strategy, run_long, quick=(48, 8), thorough=(1600, 16)),
]


def warmup():
    from pyins import strapdown
    pva = gen.to_pva({'lat': 1.0, 'lon': 2.0, 'alt': 3.0, 'speed': 1.0, 'vdir': [1, 0, 0], 'roll': 0.0, 'pitch': 0.0, 'heading': 0.0})
    strapdown.Integrator(pva).integrate(gen.increments_table(0, 3))
