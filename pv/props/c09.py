"""C09 - feedback filter handles every IMU/measurement interleaving exactly once.

Structured schedule generation (pv/sched.py) + exact bookkeeping predicates + a loop
iteration budget enforced through sys.monitoring (termination as a safety property).
"""
import numpy as np
import pandas as pd

from ..core import Clause
from .. import sched, gen

PROPERTY = 'C09'
RULE = ('Cases: IMU epoch tables of 4..40 increments (uniform 10/50/100 ms, irregular x0.5..1.5, or with a gap of '
        '3..50 intervals; start time 0/100/-3.5) and up to three measurement streams (one object per class) whose '
        'epochs are constructed from classes {on an IMU sample, fraction inside an interval incl. 1e-9 and 1-1e-9, '
        'one ulp before/after a sample, clusters of 2..4 inside one interval, one-ulp-before + exactly-on pairs, '
        'exactly start, exactly end, before start, after end, inside the gap, shared between sensors}; time_step '
        'from {0.37 x min interval, = min interval, 2.3 x median, 5 x median, 3 x span, default}; both altitude '
        'modes; measurements in {list, None, []}; sensor models {None, bias+noise+walk, full with '
        'scale/misalignment}; lever arms {None, zero, non-zero}. Oracles: loop budget n_increments+n_epochs+2; '
        'trajectory index == start + every increment time once; innovations index == the sensor\'s samples in '
        '[start,end) exactly; sd/estimate tables finite, one shared strictly increasing index inside the '
        'trajectory index starting at start; no exception. Non-trivial = schedule with an off-grid epoch, >=2 '
        'epochs in one interval, a shared epoch, an out-of-span sample, an IMU gap, time_step below the IMU '
        'interval, or a defaulted argument.')
ASSUMPTIONS = ['one measurement object per class (results are keyed by class name)',
               'measurement values = truth + small noise (bookkeeping, not estimation quality, is judged)',
               'sys.monitoring LINE events on the while header located by ast in the current filters.py']


def check_result(ctx, sc, res, t_start, exp_index, two_d):
    tr = res.trajectory
    idx = np.asarray(tr.index, float)
    ctx.check(len(idx) == len(exp_index) and np.array_equal(idx, exp_index), 'trajectory_index',
              lambda: f'got {idx.tolist()[:60]} expected {exp_index.tolist()[:60]}')
    ctx.check(list(tr.columns) == gen.TRAJ_COLS, 'trajectory_columns', str(list(tr.columns)))
    ctx.check(np.all(np.isfinite(tr.values.astype(float))), 'trajectory_not_finite', 'NaN/inf in trajectory')
    check_tables(ctx, sc, res, t_start, idx)


def check_tables(ctx, sc, res, t_start, traj_index):
    base = None
    for nm in ('trajectory_sd', 'gyro', 'gyro_sd', 'accel', 'accel_sd'):
        d = res[nm]
        ii = np.asarray(d.index, float)
        ctx.check(np.all(np.isfinite(d.values.astype(float))), f'not_finite:{nm}', 'NaN/inf')
        ctx.check(len(ii) >= 1 and ii[0] == t_start, f'first_time:{nm}', lambda: f'{ii[:3]} start {t_start}')
        ctx.check(np.all(np.diff(ii) > 0), f'index_not_strictly_increasing:{nm}', lambda: f'{ii.tolist()[:60]}')
        ctx.check(np.all(np.isin(ii, traj_index)), f'index_not_subset:{nm}', lambda: f'{ii.tolist()[:60]}')
        if base is None:
            base = ii
        else:
            ctx.check(len(ii) == len(base) and np.array_equal(ii, base), f'index_mismatch:{nm}', 'tables differ in index')
    return base


def check_innovations(ctx, sc, res, stamped_with_own_time=True):
    inn = res.innovations
    if sc.case['meas_mode'] != 'list':
        ctx.check(isinstance(inn, dict) and len(inn) == 0, 'innovations_nonempty_without_measurements', str(inn))
        return
    ctx.check(set(inn.keys()) == set(sc.samples.keys()), 'innovation_keys', lambda: f'{set(inn.keys())} vs {set(sc.samples.keys())}')
    for cls, _ in sc.samples.items():
        exp = sc.expected_samples(cls)
        got = np.asarray(inn[cls].index, float)
        if stamped_with_own_time:
            ctx.check(len(got) == len(exp) and np.array_equal(got, exp), f'innovation_times:{cls}',
                      lambda: f'{cls}: got {got.tolist()} expected {exp.tolist()} (imu epochs {sc.t.tolist()[:50]})')
        else:
            ctx.check(len(got) == len(exp), f'innovation_count:{cls}',
                      lambda: f'{cls}: got {len(got)} rows at {got.tolist()} expected {len(exp)} samples {exp.tolist()}')
            ctx.check(np.all(np.diff(got) >= 0), f'innovation_order:{cls}', lambda: f'{got.tolist()}')
        vals = inn[cls].values.astype(float)
        ctx.check(np.all(np.isfinite(vals)), f'innovation_not_finite:{cls}', 'NaN/inf')
        ncol = 3 if (cls == 'BodyVelocity' or sc.case['with_altitude']) else 2
        if len(exp):
            ctx.check(vals.shape == (len(exp), ncol), f'innovation_shape:{cls}', lambda: f'{vals.shape} expected {(len(exp), ncol)}')


def labels(ctx, sc):
    c = sc.case
    for lab in sc.labels:
        if c['meas_mode'] == 'list' or lab == 'imu_gap':
            ctx.label(lab)
    ctx.label(f"step={c['step_kind']}", f"sampling={c['sampling']}", f"meas={c['meas_mode']}", f"models={c['models']}",
              'mode=3D' if c['with_altitude'] else 'mode=2D', f"sensors={len(c['sensors']) if c['meas_mode'] == 'list' else 0}")


def nontrivial(sc):
    c = sc.case
    labs = sc.labels if c['meas_mode'] == 'list' else (sc.labels & {'imu_gap'})
    return bool(labs & {'off_grid_epoch', 'two_epochs_in_one_interval', 'three_or_more_epochs_in_one_interval',
                             'epoch_shared_between_sensors', 'out_of_span_sample', 'imu_gap'}) or \
        c['step_kind'] in ('below', 'default') or c['meas_mode'] != 'list' or c['models'] == 'none'


def run_feedback(case, ctx):
    from pyins import filters
    sc = sched.Scenario(case)
    labels(ctx, sc)
    gm, am = sc.models()
    kwargs = {}
    step = sc.time_step()
    if step is not None:
        kwargs['time_step'] = step
    if gm is not None:
        kwargs['gyro_model'] = gm
        kwargs['accel_model'] = am
    meas = sc.meas_arg()
    if meas is not None or case['sub'] % 2:
        kwargs['measurements'] = meas
    if not case['with_altitude'] or case['sub'] % 3:
        kwargs['with_altitude'] = case['with_altitude']
    inc = sc.increments
    inc_snap = inc.copy()
    budget = len(inc) + (sc.n_epochs_inside if case['meas_mode'] == 'list' else 0) + 2
    res = ctx.sut(sched.run_with_budget, budget, filters.run_feedback_filter,
                  sc.pva0, 5.0, 0.5, 0.5, 1.0, inc, **kwargs)
    ctx.check(inc.equals(inc_snap), 'input_modified:increments', '')
    exp_index = np.concatenate([[sc.t[0]], np.asarray(inc.index, float)])
    check_result(ctx, sc, res, sc.t[0], exp_index, not case['with_altitude'])
    check_innovations(ctx, sc, res, stamped_with_own_time=True)
    # sensor estimate tables carry the model's state names
    if gm is not None:
        ctx.check(list(res.gyro.columns) == gm.states and list(res.gyro_sd.columns) == gm.states and
                  list(res.accel.columns) == am.states and list(res.accel_sd.columns) == am.states,
                  'sensor_table_columns', lambda: f'{list(res.gyro.columns)} {gm.states}')
    ctx.mark_nontrivial(nontrivial(sc))


CLAUSES = [
    Clause('feedback', sched.schedule_strategy(), run_feedback, quick=(160, 16), thorough=(4800, 16),
           shrink_quick=True),
]


def warmup():
    from . import c02
    c02.warmup()
