"""C03 - synthesised IMU matches the motion's true kinematics and inverts strapdown.

Oracle: designed smooth trajectories with exact body rate / specific force from second-order
jets (pv/ref/kinematics.py, cross-checked against the navigation ODE in its self-test),
Gauss-Legendre integrals for increment sensors, halving-change rule with a stated rounding floor.
"""
import numpy as np
import pandas as pd
from hypothesis import strategies as st

from ..core import Clause
from ..ref import kinematics as K
from ..ref import rot as ROT
from ..ref import wgs84 as W
from . import c01

PROPERTY = 'C03'
RULE = ('Cases: designed trajectories lat/lon/alt and roll/pitch/heading = drift + 1..2 sinusoids each (|lat|<=85 both '
        'hemispheres, speeds up to 300 m/s, |pitch|<=80, 3-axis attitude motion, heading drift), expanded from an integer '
        'sub-seed; sampling ladder {100, 50, 25, 12.5} ms over 20..40 s; three accepted input forms (lla+velocity, lla only, '
        'initial lla+velocity) x {rate, increment}; plus rest cases (any lat/alt/attitude). Oracles: exact w_ib^b and f^b '
        'from jets (rate) or their 8-point Gauss-Legendre integrals (increment): e(h) <= 4 |imu_h - imu_h/2| + floor(h), '
        'e(rung) <= 0.9 max e(up to 3 coarser rungs) + floor from the third rung on; returned trajectories of the three forms vs the design; strapdown round trip error '
        'obeys the same windowed rule down to its floor; rest: gyro = C^T Omega, accel = -C^T g. '
        'Non-trivial = moving with non-constant heading and non-zero roll/pitch rates.')
ASSUMPTIONS = ['rounding floor: accel 128*ulp(6.4e6 m)/h^2 + 1e-9 (the synthesiser differentiates inertial position twice: measured 3e-4 m/s^2 at 12.5 ms, 9e-6 at 100 ms), gyro 256*ulp(pi)/h + 1e-12',
               'errors are evaluated over all samples incl. the spline end intervals']

LADDER = [0.1, 0.05, 0.025, 0.0125]
FORMS = ['lla+vel', 'lla', 'init+vel']
GYRO = ['gyro_x', 'gyro_y', 'gyro_z']
ACC = ['accel_x', 'accel_y', 'accel_z']


def case_strategy():
    return st.fixed_dictionaries({
        'lat0': st.sampled_from([50.0, -33.0, 2.0, -2.0, 80.0, -80.0, 20.0, -60.0, 84.8, -84.8]),        # the stated domain ends at 85
        'lon0': st.sampled_from([10.0, -120.0, 179.0, -179.0, 0.5, 179.9998, -179.9998]),     # the last two: the motion crosses the antimeridian
        'alt0': st.sampled_from([0.0, 500.0, 10000.0]),
        'speed': st.sampled_from([0.5, 5.0, 30.0, 100.0, 250.0]),
        'course': st.floats(0, 360),
        'att_amp': st.sampled_from([2.0, 10.0, 30.0, 0.0]),      # 0: roll, pitch and heading held exactly constant while the vehicle moves
        'form': st.sampled_from(FORMS),
        'sensor_type': st.sampled_from(['rate', 'increment']),
        'T': st.sampled_from([20.0, 40.0]),
        't0': st.sampled_from([0.0, 0.0, 7.5, 300.0, -12.25]),
        'jitter': st.sampled_from([False, False, True]),       # unequal intervals (each rung splits every interval of the one before)
        'sub': st.integers(0, 2 ** 31 - 1),
    })


def design_for(case):
    rng = np.random.RandomState(case['sub'])
    V = case['speed']
    crs = np.radians(case['course'])
    lat0 = case['lat0']
    vn, ve = V * np.cos(crs), V * np.sin(crs)
    dlat = vn / 111e3
    dlon = ve / (111e3 * np.cos(np.radians(lat0)))
    wv = rng.uniform(0.05, 0.3, 3)
    va = V * rng.uniform(0.05, 0.3, 3) + 0.2          # velocity oscillation amplitude m/s
    aa = case['att_amp']
    p = {
        'lat': (lat0, dlat, [va[0] / wv[0] / 111e3], [wv[0]], [rng.uniform(0, 6)]),
        'lon': (case['lon0'], dlon, [va[1] / wv[1] / (111e3 * np.cos(np.radians(lat0)))], [wv[1]], [rng.uniform(0, 6)]),
        'alt': (case['alt0'] + 300.0, rng.uniform(-2, 2), [min(va[2], 10.0) / wv[2]], [wv[2]], [rng.uniform(0, 6)]),
        'roll': (rng.uniform(-20, 20), 0.0, [aa * rng.uniform(0.3, 1), aa * 0.3], [rng.uniform(0.2, 1.0), rng.uniform(1.0, 2.0)], rng.uniform(0, 6, 2)),
        'pitch': (rng.uniform(-15, 15), 0.0, [min(aa, 25.0) * rng.uniform(0.3, 1), aa * 0.2], [rng.uniform(0.2, 1.0), rng.uniform(1.0, 2.0)], rng.uniform(0, 6, 2)),
        'heading': (rng.uniform(-170, 170), rng.uniform(-3, 3) * (aa > 0), [aa * rng.uniform(0.3, 1)], [rng.uniform(0.1, 0.6)], [rng.uniform(0, 6)]),
    }
    return K.Design(p)


def synth(ctx, d, t, form, stype):
    from pyins import sim
    ev = d.evaluate(t)
    rph = ev['rph'].copy()
    rph[:, 2] = (rph[:, 2] + 180) % 360 - 180
    # positions are handed over in the standard range: a longitude that the design carries beyond +-180 is wrapped into
    # [-180, 180) (the motion itself is smooth across the antimeridian); values inside the range are passed as they are
    lla_in = ev['lla'].copy()
    out = np.abs(lla_in[:, 1]) > 180
    lla_in[out, 1] = (lla_in[out, 1] + 180) % 360 - 180
    if out.any() and not out.all():
        ctx.label('crosses_antimeridian')
    snap = (lla_in.copy(), rph.copy(), ev['V'].copy(), t.copy())
    if form == 'lla+vel':
        tr, imu = ctx.sut(sim.generate_imu, t, lla_in, rph, ev['V'], stype)
    elif form == 'lla':
        tr, imu = ctx.sut(sim.generate_imu, t, lla_in, rph, None, stype)
    else:
        tr, imu = ctx.sut(sim.generate_imu, t, lla_in[0], rph, ev['V'], stype)
    ctx.check(np.array_equal(lla_in, snap[0]) and np.array_equal(rph, snap[1]) and np.array_equal(ev['V'], snap[2])
              and np.array_equal(t, snap[3]), 'input_modified', '')
    ctx.check(len(tr) == len(t) and len(imu) == len(t) and np.array_equal(np.asarray(imu.index, float), t), 'table_shape', '')
    return ev, tr, imu


def imu_errors(d, ev, imu, t, stype):
    """max |gyro err| rad/s, |accel err| m/s^2 (increments divided by the interval)."""
    if stype == 'rate':
        return np.abs(imu[GYRO].values - ev['gyro']).max(), np.abs(imu[ACC].values - ev['accel']).max()
    Ig, Ia = d.increments(t)
    h = np.diff(t)[:, None]
    return np.abs((imu[GYRO].values[1:] - Ig) / h).max(), np.abs((imu[ACC].values[1:] - Ia) / h).max()


def imu_change(imu_h, imu_h2, stype, h):
    """|imu_h - imu_{h/2}| on common epochs, in rate units (h: interval lengths of the coarser table, scalar or (n,1))."""
    if stype == 'rate':
        a = imu_h[GYRO + ACC].values
        b = imu_h2[GYRO + ACC].values[::2]
        dlt = np.abs(a - b)
    else:
        a = imu_h[GYRO + ACC].values[1:]
        b2 = imu_h2[GYRO + ACC].values[1:]
        b = b2[0::2] + b2[1::2]
        dlt = np.abs(a - b) / h
    return dlt[:, :3].max(), dlt[:, 3:].max()


def run_truth(case, ctx):
    from pyins import strapdown
    d = design_for(case)
    form, stype, T = case['form'], case['sensor_type'], case['T']
    ctx.label(f'form={form}', f'type={stype}', 'hemi=' + ('N' if case['lat0'] >= 0 else 'S') + ('E' if case['lon0'] >= 0 else 'W'),
              f"speed={case['speed']}", f"att_amp={case['att_amp']}", 't0=0' if case.get('t0', 0.0) == 0 else 't0!=0')
    res = {}
    jit = bool(case.get('jitter', False))
    ctx.label('stamps=' + ('irregular' if jit else 'uniform'))
    t = None
    for h in LADDER + [LADDER[-1] / 2]:
        n = int(round(T / h))
        if not jit:
            t = case.get('t0', 0.0) + h * np.arange(n + 1)         # records need not start at time zero
        elif t is None:     # intervals of 0.6..1.4 h on the first rung; every later rung splits each interval in the middle
            t = case.get('t0', 0.0) + np.r_[0.0, np.cumsum(h * (1 + 0.4 * np.random.RandomState(case['sub'] ^ 0x5a5a).uniform(-1, 1, n)))]
        else:
            t = np.sort(np.r_[t, 0.5 * (t[1:] + t[:-1])])
        ev, tr, imu = synth(ctx, d, t, form, stype)
        res[h] = (ev, tr, imu, t)
    ulp_pos = np.spacing(max(abs(case['lat0']), abs(case['lon0']), 1.0)) * 111e3
    # Error terms of different order in h can cancel on one rung (C01 seed-14 false alarm, DESIGN 9.3), so no rule compares a
    # single pair of rungs: rule 1 takes the larger of two consecutive halving changes, rule 2 compares a rung with the largest
    # error of the (up to three) coarser rungs before it, from the third rung on.
    hs = LADDER + [LADDER[-1] / 2]
    errs = [imu_errors(d, res[h][0], res[h][2], res[h][3], stype) for h in hs]
    chg = [imu_change(res[hs[k]][2], res[hs[k + 1]][2], stype, np.diff(res[hs[k]][3])[:, None]) for k in range(len(LADDER))]
    hmins = [float(np.diff(res[h][3]).min()) for h in hs]           # rounding floors follow the shortest interval
    for k, h in enumerate(LADDER):
        eg, ea = errs[k]
        dg = max(c[0] for c in chg[k:k + 2])
        da = max(c[1] for c in chg[k:k + 2])
        fg = 256 * np.spacing(np.pi) / hmins[k] + 1e-12
        fa = 128 * np.spacing(6.4e6) / hmins[k] ** 2 + 1e-9
        info = f'case={case} h={h}: gyro err by rung {[e[0] for e in errs]} changes {[c[0] for c in chg]}; accel err by rung {[e[1] for e in errs]} changes {[c[1] for c in chg]}'
        ctx.stat('gyro_err_over_4x_change', eg / (4 * dg + fg))
        ctx.stat('accel_err_over_4x_change', ea / (4 * da + fa))
        ctx.check(eg <= 4 * dg + fg, 'gyro_non_vanishing_error', lambda: info)
        ctx.check(ea <= 4 * da + fa, 'accel_non_vanishing_error', lambda: info)
    for k in range(2, len(hs)):
        h = hmins[k]
        fg = 256 * np.spacing(np.pi) / h + 1e-12
        fa = 128 * np.spacing(6.4e6) / h ** 2 + 1e-9
        eg2, ea2 = errs[k]
        eg = max(e[0] for e in errs[max(0, k - 3):k])
        ea = max(e[1] for e in errs[max(0, k - 3):k])
        info = f'case={case} h={h}: gyro err by rung {[e[0] for e in errs]}; accel err by rung {[e[1] for e in errs]}'
        ctx.stat('gyro_halving', eg2 / (0.9 * eg + fg))
        ctx.stat('accel_halving', ea2 / (0.9 * ea + 2 * fa))
        ctx.check(eg2 <= 0.9 * eg + fg, 'gyro_no_convergence', lambda: info)
        ctx.check(ea2 <= 0.9 * ea + 2 * fa, 'accel_no_convergence', lambda: info)
    # (ii) the returned trajectory describes the designed motion (all three forms)
    trs = []
    for k, h in enumerate(hs):
        ev, tr, imu, t = res[h]
        rm, rt = W.radii(ev['lla'][:, 0], ev['lla'][:, 2])
        dn = (tr['lat'].values - ev['lla'][:, 0]) * W.D2R * rm
        de = ((tr['lon'].values - ev['lla'][:, 1] + 180) % 360 - 180) * W.D2R * rt * np.cos(np.radians(ev['lla'][:, 0]))
        dpos = max(np.abs(dn).max(), np.abs(de).max(), np.abs(tr['alt'].values - ev['lla'][:, 2]).max())
        dvel = np.abs(tr[['VN', 'VE', 'VD']].values - ev['V']).max()
        datt = np.abs((tr[['roll', 'pitch', 'heading']].values - ev['rph'] + 180) % 360 - 180).max()
        ctx.check(datt <= 1e-9, 'returned_attitude_differs', f'{datt:.3e}')
        trs.append(np.array([dpos, dvel]))
        if k >= 2:
            before = np.max(trs[max(0, k - 3):k], axis=0)
            fl = np.array([256 * ulp_pos + 1e-7, 256 * ulp_pos / hmins[k] + 1e-7])
            info = f'case={case} h={h}: returned trajectory vs design [pos m, vel m/s] by rung {[x.tolist() for x in trs]}'
            ctx.stat('traj_pos_halving', trs[k][0] / (0.9 * before[0] + fl[0]))
            ctx.stat('traj_vel_halving', trs[k][1] / (0.9 * before[1] + fl[1]))
            ctx.check(trs[k][0] <= 0.9 * before[0] + fl[0], 'form_position_no_convergence', lambda: info)
            ctx.check(trs[k][1] <= 0.9 * before[1] + fl[1], 'form_velocity_no_convergence', lambda: info)
    prev = trs[-1]
    ctx.check(prev[0] <= 0.05 + 1e-4 * case['speed'] and prev[1] <= 0.01 + 1e-4 * case['speed'], 'form_describes_other_motion',
              lambda: f'case={case}: at h={LADDER[-1] / 2} returned trajectory differs from the design by {prev.tolist()}')
    # (iii) strapdown round trip from the first returned row reproduces the returned trajectory
    rts = []
    for h in LADDER:
        ev, tr, imu, t = res[h]
        inc = ctx.sut(strapdown.compute_increments_from_imu, imu, stype)
        back = ctx.sut(strapdown.Integrator(tr.iloc[0]).integrate, inc)
        rts.append(c01.table_distance(back, tr))
    rts = np.array(rts)
    for k in range(2, len(LADDER)):
        # rounding floor of the round trip: the synthesiser's acceleration noise 128 ulp(6.4e6)/h^2 (see ASSUMPTIONS) integrates to a
        # velocity random walk ~ a_noise sqrt(h T) and a position error ~ that x T (seed 10: 9e-4 m at 12.5 ms, 250 m/s, 20 s)
        a_noise = 128 * np.spacing(6.4e6) / hmins[k] ** 2
        v_noise = 0.2 * a_noise * np.sqrt(LADDER[k] * T)
        fl = np.array([2e-4 + 0.5 * v_noise * T, 2e-5 + v_noise, 2e-8 + 1e-3 * v_noise])
        before = rts[max(0, k - 3):k].max(axis=0)
        for g in range(3):
            ctx.stat(f'roundtrip_halving_{c01.NAMES[g]}', rts[k, g] / (0.9 * before[g] + fl[g]))
            ctx.check(rts[k, g] <= 0.9 * before[g] + fl[g], f'roundtrip_no_convergence:{c01.NAMES[g]}',
                      lambda: f'case={case}: round-trip {c01.NAMES[g]} error over the ladder {rts[:, g].tolist()} does not keep shrinking')
    lim = np.array([0.5 + 0.01 * case['speed'], 0.05 + 1e-3 * case['speed'], 1e-4 * (1 + case['att_amp'])])
    ctx.check(np.all(rts[-1] <= lim), 'roundtrip_error_too_large',
              lambda: f'case={case}: round trip at h={LADDER[-1]}: {rts[-1].tolist()} limit {lim.tolist()}')
    ctx.mark_nontrivial(case['speed'] >= 5.0 and case['att_amp'] >= 10.0)


def rest_strategy():
    return st.fixed_dictionaries({
        'lat': st.one_of(st.sampled_from([0.0, 85.0, -85.0, 45.0]), st.floats(-85, 85)),
        'lon': st.one_of(st.sampled_from([0.0, 180.0, -180.0]), st.floats(-180, 180)),
        'alt': st.one_of(st.sampled_from([0.0, -500.0, 20000.0]), st.floats(-500, 20000)),
        'roll': st.floats(-180, 180), 'pitch': st.floats(-85, 85), 'heading': st.floats(-180, 180),
        'form': st.sampled_from(FORMS), 'sensor_type': st.sampled_from(['rate', 'increment']),
        'h': st.sampled_from([0.01, 0.05, 0.1, 0.1]), 'n': st.integers(8, 60),
        'jitter': st.integers(0, 3),           # 0, 1: uniform stamps; 2, 3: every interval has its own length (seed of the draw)
    })


def run_rest(case, ctx):
    from pyins import sim
    n, h = case['n'], case['h']
    t = 100.0 + h * np.arange(n)
    jit = case.get('jitter', 0) >= 2
    if jit:       # "time points for which the trajectory is provided" need not be equally spaced
        t = 100.0 + np.r_[0.0, np.cumsum(h * (1 + 0.5 * np.random.RandomState(case['jitter'] + 7 * n).uniform(-1, 1, n - 1)))]
    lla = np.tile([case['lat'], case['lon'], case['alt']], (n, 1))
    rph = np.tile([case['roll'], case['pitch'], case['heading']], (n, 1))
    V = np.zeros((n, 3))
    form, stype = case['form'], case['sensor_type']
    ctx.label(f'form={form}', f'type={stype}', 'hemi=' + ('N' if case['lat'] >= 0 else 'S') + ('E' if case['lon'] >= 0 else 'W'))
    if form == 'lla+vel':
        tr, imu = ctx.sut(sim.generate_imu, t, lla, rph, V, stype)
    elif form == 'lla':
        tr, imu = ctx.sut(sim.generate_imu, t, lla, rph, None, stype)
    else:
        tr, imu = ctx.sut(sim.generate_imu, t, lla[0], rph, V, stype)
    C = np.asarray(ROT.dcm_from_rph([case['roll'], case['pitch'], case['heading']]), float)
    w = C.T @ W.rate_n(case['lat'])
    f = -C.T @ np.array([0, 0, float(W.gravity(case['lat'], case['alt']))])
    # increment type: row k holds the integral over (t[k-1], t[k]], row 0 duplicates row 1
    k = np.r_[t[1] - t[0], np.diff(t)][:, None] if stype == 'increment' else 1.0
    eg = np.abs(imu[GYRO].values / k - w).max()
    ea = np.abs(imu[ACC].values / k - f).max()
    # rounding: the inertial position (6.4e6 m, t ~ 100 s) is differentiated twice by splines
    hmin = float(np.diff(t).min())
    fg = 1e-11 + 64 * np.spacing(np.pi) / hmin
    fa = 1e-7 + 128 * np.spacing(6.4e6) / hmin ** 2
    ctx.stat('rest_gyro', eg / fg)
    ctx.stat('rest_accel', ea / fa)
    ctx.check(eg <= fg, 'rest_gyro_not_earth_rate', lambda: f'case={case}: gyro {(imu[GYRO].values / k)[n // 2]} expected {w} (|err| {eg:.3e} tol {fg:.3e})')
    ctx.check(ea <= fa, 'rest_accel_not_gravity_reaction', lambda: f'case={case}: accel {(imu[ACC].values / k)[n // 2]} expected {f} (|err| {ea:.3e} tol {fa:.3e})')
    dv = np.abs(tr[['VN', 'VE', 'VD']].values).max()
    ctx.check(dv <= 1e-6 + 64 * np.spacing(6.4e6) / hmin, 'rest_velocity_nonzero', lambda: f'{dv:.3e}')
    ctx.label('stamps=' + ('irregular' if jit else 'uniform'))
    ctx.mark_nontrivial(abs(case['roll']) > 5 and abs(case['pitch']) > 5 and abs(case['lat']) > 1)


def sine_strategy():
    return st.fixed_dictionaries({
        'lat0': st.sampled_from([55.0, -33.0, 2.0, -75.0, 75.0]), 'lon0': st.sampled_from([10.0, -120.0, 179.9]),
        'alt0': st.sampled_from([0.0, 3000.0]),
        'vmean': st.lists(st.sampled_from([0.0, 1.0, -5.0, 20.0, -60.0]), min_size=2, max_size=2),
        'vdown': st.sampled_from([0.0, 0.5, -1.0]),
        'amp': st.sampled_from([0.0, 1.0, 5.0]), 'period': st.sampled_from([20.0, 60.0]),
        'phase': st.lists(st.sampled_from([0.0, 90.0, 45.0, 180.0]), min_size=3, max_size=3),
        'sensor_type': st.sampled_from(['rate', 'increment']), 'T': st.sampled_from([20.0, 40.0]),
    })


def run_sine_motion(case, ctx):
    """sim.generate_sine_velocity_motion: velocity law, position = integral of velocity, strapdown round trip."""
    from pyins import sim, strapdown
    vmean = np.array(case['vmean'] + [case['vdown']], float)
    amp = np.array([case['amp'], case['amp'], 0.2 * case['amp']])
    # heading follows the velocity direction: the motion is smooth only while the horizontal speed stays away from zero
    tt = np.arange(0, case['T'], 0.01)
    vh = vmean[:2] + amp[:2] * np.sin(2 * np.pi * tt[:, None] / case['period'] + np.deg2rad(case['phase'][:2]))
    if np.hypot(vh[:, 0], vh[:, 1]).min() < 1.0:
        vmean[0] += (2.0 + 1.5 * case['amp']) * (1 if vmean[0] >= 0 else -1)
    lla0 = [case['lat0'], case['lon0'], case['alt0']]
    stype = case['sensor_type']
    ctx.label(f'type={stype}', 'hemi=' + ('N' if case['lat0'] >= 0 else 'S') + ('E' if case['lon0'] >= 0 else 'W'))
    rts, dps = [], []
    for dt in (0.1, 0.05, 0.025, 0.0125):
        tr, imu = ctx.sut(sim.generate_sine_velocity_motion, dt, case['T'], lla0, vmean, amp, case['period'], case['phase'], stype)
        t = np.asarray(tr.index, float)
        ctx.check(np.array_equal(t, np.arange(0, case['T'], dt)) and tr.index.equals(imu.index), 'time_index', '')
        v = vmean + amp * np.sin(2 * np.pi * t[:, None] / case['period'] + np.deg2rad(case['phase']))
        ev = np.abs(tr[['VN', 'VE', 'VD']].values - v).max()
        ctx.check(ev <= 64 * np.spacing(np.abs(v).max() + 1.0), 'velocity_law', lambda: f'case={case}: returned velocity differs from the documented law by {ev:.3e}')
        ctx.check(np.all(tr['roll'].values == 0.0), 'roll_not_zero', '')
        hd = np.degrees(np.arctan2(v[:, 1], v[:, 0]))
        ctx.check(np.abs((tr['heading'].values - hd + 180) % 360 - 180).max() <= 1e-9, 'heading_not_along_velocity', '')
        ctx.check(np.abs(tr[['lat', 'lon', 'alt']].values[0] - lla0).max() <= 1e-12, 'initial_position', '')
        # position is the integral of the velocity: central differences of own-geodesy position vs velocity
        rm, rt = W.radii(tr['lat'].values, tr['alt'].values)
        dn = np.gradient(tr['lat'].values, t) * W.D2R * rm
        de = np.gradient(((tr['lon'].values - case['lon0'] + 180) % 360 - 180), t) * W.D2R * rt * np.cos(np.radians(tr['lat'].values))
        dd = -np.gradient(tr['alt'].values, t)
        dps.append(np.abs(np.column_stack([dn, de, dd])[2:-2] - v[2:-2]).max())
        inc = ctx.sut(strapdown.compute_increments_from_imu, imu, stype)
        back = ctx.sut(strapdown.Integrator(tr.iloc[0]).integrate, inc)
        rts.append(c01.table_distance(back, tr))
    rts = np.array(rts)
    vmax = np.abs(vmean).max() + case['amp']
    for k in range(2):
        ctx.stat('sine_position_derivative', dps[k + 1] / (0.75 * dps[k] + 1e-6 * (1 + vmax)))
        ctx.check(dps[k + 1] <= 0.75 * dps[k] + 1e-6 * (1 + vmax), 'position_not_integral_of_velocity',
                  lambda: f'case={case}: d(position)/dt - velocity over the ladder: {dps}')
    # round trip: the integrator's error mixes orders in h (see run_truth), so a rung is compared with the largest of the coarser
    # rungs before it, from the third rung on
    for k in range(2, 4):
        before = rts[max(0, k - 3):k].max(axis=0)
        dtk = (0.1, 0.05, 0.025, 0.0125)[k]
        a_noise = 128 * np.spacing(6.4e6) / dtk ** 2           # same rounding model as in run_truth
        v_noise = 0.2 * a_noise * np.sqrt(dtk * case['T'])
        fls = [2e-4 + 0.5 * v_noise * case['T'], 2e-5 + v_noise, 2e-8 + 1e-3 * v_noise]
        for g in range(3):
            fl = fls[g]
            ctx.stat(f'sine_roundtrip_{c01.NAMES[g]}', rts[k, g] / (0.9 * before[g] + fl))
            ctx.check(rts[k, g] <= 0.9 * before[g] + fl, f'sine_roundtrip_no_convergence:{c01.NAMES[g]}',
                      lambda: f'case={case}: round trip {c01.NAMES[g]} error over the ladder {rts[:, g].tolist()}')
    ctx.mark_nontrivial(case['amp'] > 0 and vmax >= 5)


CLAUSES = [
    Clause('sine_motion', sine_strategy, run_sine_motion, quick=(32, 4), thorough=(1200, 16), shrink_quick=False),
    Clause('truth', case_strategy, run_truth, quick=(48, 8), thorough=(1600, 16), shrink_quick=False),
    Clause('rest', rest_strategy, run_rest, quick=(200, 4), thorough=(8000, 16)),
]


def selftest():
    K.selftest()


def warmup():
    from . import c02
    c02.warmup()
