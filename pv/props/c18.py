"""C18 - state differencing, resampling and perturbation obey their algebra."""
from fractions import Fraction

import numpy as np
import pandas as pd
from hypothesis import strategies as st

from ..core import Clause
from .. import gen, errcoords as EC
from ..ref import tables as T
from ..ref import rot as ROT
from ..tol import EPS, ulp

PROPERTY = 'C18'
RULE = ('Cases: a smooth 9-column base trajectory (heading crossing +-180, |lat|<=85, both hemispheres; uniform or '
        'jittered times) expanded from an integer sub-seed and a second table built by a relation class {identical, '
        'every k-th row, random subset, denser / sparser resampling of a perturbed copy, offset grid with the same rate, '
        'partially overlapping span}, column subsets / permuted columns / extra non-state columns; Series pairs; '
        'arbitrary finite angles (incl. +-180, +-540, 1e-20, 1e300, ints, arrays, Series, DataFrames). Oracles: '
        'antisymmetry, self / sub-sample zero (64 ulp), own interpolation + own metre conversion reference, exact '
        'rational congruence for angle reduction, first-order recovery of a perturbation. Non-trivial = tables of '
        'different rates with a non-zero perturbation and a heading wrap inside the common span.')
ASSUMPTIONS = ['"exactly zero" self-difference = zero within 64 ulp of the column magnitudes (the code resamples even identical indices)',
               'antisymmetry compared pointwise only when both orders produce the same grid; at +-180 modulo 360']

COLS = gen.TRAJ_COLS
ERR = gen.ERR_COLS


def base_table(sub, n, jitter):
    rng = np.random.RandomState(sub)
    dt = float(rng.choice([0.05, 0.1, 0.5, 1.0]))
    t = float(rng.choice([0.0, 1000.0, -20.0])) + dt * np.arange(n)
    if jitter:
        t = t + rng.uniform(-0.3, 0.3, n) * dt
        t = np.sort(t)
    s = t - t[0]
    lat0 = float(rng.choice([50.0, -33.0, 0.001, -84.0, 84.0]))
    lon0 = float(rng.choice([10.0, -120.0, 179.9995, -179.9995]))
    d = {
        'lat': lat0 + 1e-5 * s + 2e-5 * np.sin(0.3 * s),
        'lon': lon0 + 2e-5 * s * (1 if lon0 < 179 else -1) + 1e-5 * np.cos(0.2 * s),
        'alt': 100 + 0.5 * s + 3 * np.sin(0.5 * s),
        'VN': 5 + np.sin(0.4 * s), 'VE': -3 + np.cos(0.3 * s), 'VD': 0.2 * np.sin(0.2 * s),
        'roll': 10 * np.sin(0.6 * s + rng.uniform(0, 6)),
        'pitch': 8 * np.cos(0.5 * s + rng.uniform(0, 6)),
        'heading': None,
    }
    h0 = float(rng.choice([170.0, -175.0, 20.0, 175.0]))
    rate = {170.0: 8.0, -175.0: -6.0, 20.0: float(rng.choice([8.0, -6.0])), 175.0: 5.0}[h0]
    d['heading'] = T.wrap180(h0 + rate * s / dt * 0.4)
    return pd.DataFrame(d, index=pd.Index(t, name='time'))[COLS]


def pair_strategy():
    return st.fixed_dictionaries({
        'sub': st.integers(0, 2 ** 31 - 1),
        'n': st.integers(6, 40),
        'jitter': st.booleans(),
        'relation': st.sampled_from(['identical', 'every_k', 'subset', 'denser', 'sparser', 'offset_same_rate', 'partial_overlap']),
        'k': st.integers(2, 4),
        'perturb': st.sampled_from([0.0, 1.0, 0.1]),
        'columns': st.sampled_from(['all', 'all', 'no_lla', 'no_rph', 'permuted', 'extra']),
    })


def own_resample(tab, tq):
    """Own reference for resample_state restricted to tq inside the span (sorted)."""
    t = np.asarray(tab.index, float)
    out = pd.DataFrame(index=tq)
    other = [c for c in tab.columns if c not in T.RPH]
    vals, _, _ = T.interp_rows(t, tab[other].values.astype(float), tq)
    for j, c in enumerate(other):
        out[c] = vals[:, j]
    C = None
    if all(c in tab.columns for c in T.RPH):
        C = T.interp_rotation(t, tab[T.RPH].values.astype(float), tq)
    return out, C


def own_difference(first, second):
    """Reference for compute_state_difference on two DataFrames. Returns (index, dict col->values, dcm pair)."""
    m1 = np.median(np.diff(np.asarray(first.index, float)))
    m2 = np.median(np.diff(np.asarray(second.index, float)))
    sign = 1.0
    if m1 < m2:
        first, second = second, first
        sign = -1.0
    idx = np.asarray(first.index, float)
    idx = idx[(idx >= second.index[0]) & (idx <= second.index[-1])]
    cols = [c for c in first.columns if c in second.columns]
    a = first.loc[idx, cols]
    b, Cb = own_resample(second[cols], idx)
    out = {}
    for c in cols:
        if c in T.RPH:
            continue
        out[c] = a[c].values.astype(float) - b[c].values
    if all(c in cols for c in T.LLA):
        kn, ke = T.metres_scale(a['lat'].values, a['alt'].values, b['lat'].values, b['alt'].values)
        out['north'] = out.pop('lat') * kn
        out['east'] = out.pop('lon') * ke
        out['down'] = -out.pop('alt')
    rot = None
    if Cb is not None:
        Ca = np.asarray(ROT.dcm_from_rph(a[T.RPH].values.astype(float)), float)
        rph_b = ROT.rph_from_dcm(Cb)
        for j, c in enumerate(T.RPH):
            out[c] = T.wrap180(a[c].values.astype(float) - rph_b[:, j])
        rot = (Ca, Cb)
    return idx, {k: sign * v for k, v in out.items()}, sign


def second_table(case, base):
    rng = np.random.RandomState(case['sub'] ^ 0x55aa)
    rel = case['relation']
    t = np.asarray(base.index, float)
    pert = case['perturb']

    def perturbed(tab):
        if pert == 0:
            return tab.copy()
        out = tab.copy()
        out['lat'] += 3e-5 * pert
        out['lon'] -= 2e-5 * pert
        out['alt'] += 4.0 * pert
        out['VN'] += 0.3 * pert
        out['VE'] -= 0.2 * pert
        out['VD'] += 0.1 * pert
        out['roll'] += 0.5 * pert
        out['pitch'] -= 0.4 * pert
        out['heading'] = T.wrap180(out['heading'] + 6.5 * pert)      # several rows then straddle +-180 between the two tables
        return out
    if rel == 'identical':
        return base.copy(), 'same_grid'
    if rel == 'every_k':
        return base.iloc[::case['k']].copy(), 'nested'
    if rel == 'subset':
        keep = np.sort(rng.choice(len(base), size=max(3, len(base) // 2), replace=False))
        keep[0] = 0
        return base.iloc[np.unique(keep)].copy(), 'nested'
    own_dense = None
    if rel in ('denser', 'sparser', 'offset_same_rate', 'partial_overlap'):
        dt = np.median(np.diff(t))
        if rel == 'denser':
            tq = np.arange(t[0], t[-1], dt / 2.5)
        elif rel == 'sparser':
            tq = np.arange(t[0] + 0.3 * dt, t[-1], dt * 2.2)
        elif rel == 'offset_same_rate':
            tq = t[:-1] + 0.37 * np.diff(t)
        else:
            tq = np.arange(t[0] + 0.4 * (t[-1] - t[0]), t[-1] + 0.5 * (t[-1] - t[0]), dt * 1.7)
        tin = tq[(tq >= t[0]) & (tq <= t[-1])]
        res, C = own_resample(base, tin)
        rph = ROT.rph_from_dcm(C)
        for j, c in enumerate(T.RPH):
            res[c] = rph[:, j]
        res = res[COLS]
        if rel == 'partial_overlap':
            # extend beyond the base span by extrapolating the last rows linearly in time
            tout = tq[tq > t[-1]]
            ext = pd.DataFrame({c: res[c].values[-1] + 0 * tout for c in COLS}, index=tout)
            res = pd.concat([res, ext])
        res.index.name = 'time'
        return perturbed(res), rel
    raise ValueError(rel)


def select_columns(case, a, b):
    c = case['columns']
    if c == 'no_lla':
        return a.drop(columns=T.LLA), b.drop(columns=T.LLA)
    if c == 'no_rph':
        return a.drop(columns=T.RPH), b.drop(columns=T.RPH)
    if c == 'permuted':
        return a, b[['heading', 'VD', 'lat', 'roll', 'VE', 'alt', 'pitch', 'lon', 'VN']]
    if c == 'extra':
        a = a.copy()
        b = b.copy()
        a['bias_x'] = 0.01 * np.arange(len(a))
        b['bias_x'] = 0.02
        b['only_in_second'] = 1.0
        return a, b
    return a, b


def col_scale(df_first, name):
    """Magnitude (in output units) that an ulp of the inputs represents for a result column."""
    if name in ('north', 'east'):
        src = 'lat' if name == 'north' else 'lon'
        return ulp(np.abs(df_first[src].values).max()) * 111e3
    if name == 'down':
        return ulp(np.abs(df_first['alt'].values).max())
    if name in T.RPH:
        return ulp(180.0)
    return ulp(max(np.abs(df_first[name].values).max(), 1e-3))


def run_difference(case, ctx):
    from pyins import transform
    base = base_table(case['sub'], case['n'], case['jitter'])
    second, grid_kind = second_table(case, base)
    a, b = select_columns(case, base, second)
    ctx.label(f"relation={case['relation']}", f"columns={case['columns']}", 'jitter' if case['jitter'] else 'uniform',
              f"perturb={case['perturb']}")
    sa, sb = a.copy(), b.copy()
    d_ab = ctx.sut(transform.compute_state_difference, a, b)
    d_ba = ctx.sut(transform.compute_state_difference, b, a)
    ctx.check(a.equals(sa) and b.equals(sb), 'input_modified', '')
    for d, (x, y) in ((d_ab, (a, b)), (d_ba, (b, a))):
        idx, ref, sign = own_difference(x, y)
        # index = the sparser table's times inside the other's span
        got = np.asarray(d.index, float)
        ctx.check(len(got) == len(idx) and np.array_equal(got, idx), 'result_index',
                  lambda: f'got {got.tolist()[:12]} expected {idx.tolist()[:12]}')
        common = [c for c in x.columns if c in y.columns]
        exp_cols = [{'lat': 'north', 'lon': 'east', 'alt': 'down'}.get(c, c) if all(q in common for q in T.LLA) else c for c in common]
        ctx.check(set(d.columns) == set(exp_cols), 'result_columns', lambda: f'{list(d.columns)} expected {exp_cols}')
        for c in exp_cols:
            v = d[c].values.astype(float)
            r = ref[c]
            if c in T.RPH:
                ctx.check(np.all(v >= -180) and np.all(v <= 180), f'angle_range:{c}', lambda: f'{v[np.abs(v) > 180][:3]}')
                diff = np.abs(T.wrap180(v - r))
                diff = np.minimum(diff, np.abs(diff - 360))
                tol = 2e-9 + 1e-6 * case['perturb']
            else:
                diff = np.abs(v - r)
                sc = np.abs(r).max() if len(r) else 0.0
                tol = 1e-9 * max(sc, 1.0) + (2e-6 if c in ('north', 'east') else 1e-9)
            if len(diff):
                ctx.stat(f'value_{c if c in T.RPH else "lin"}', diff.max() / tol)
                k = int(np.argmax(diff))
                ctx.check(np.all(diff <= tol), f'value:{c}',
                          lambda: f'column {c} at t={idx[k]}: got {v[k]!r} reference {r[k]!r} (|diff| {diff[k]:.3e} tol {tol:.3e})')
    # (i) antisymmetry wherever both orders share a grid
    if len(d_ab) == len(d_ba) and np.array_equal(np.asarray(d_ab.index, float), np.asarray(d_ba.index, float)):
        ctx.label('antisymmetry_compared')
        for c in d_ab.columns:
            u = d_ab[c].values.astype(float)
            w = d_ba[c].values.astype(float)
            if c in T.RPH:
                s = np.abs(u + w)
                okm = (s <= 1e-9) | (np.abs(s - 360) <= 1e-9)
            else:
                okm = np.abs(u + w) <= 64 * col_scale_safe(a, c) + 1e-9 * np.abs(u)
            ctx.check(np.all(okm), f'antisymmetry:{c}', lambda: f'd(a,b)={u[~okm][:3]} d(b,a)={w[~okm][:3]}')
    # (ii) self and sub-sample differences vanish
    if case['relation'] in ('identical', 'every_k', 'subset'):
        # Known finding C18-nested-density: the code decides which table to interpolate by comparing the MEDIAN
        # sampling intervals; a sub-sampling whose median interval is not larger than its parent's (possible on
        # irregular stamps) is interpolated onto the parent's grid and the difference is not zero there.
        m_par = np.median(np.diff(np.asarray(a.index, float)))
        m_sub = np.median(np.diff(np.asarray(b.index, float)))
        misjudged = case['relation'] != 'identical' and not m_sub > m_par
        if misjudged and not case.get('force_zero_check'):
            ctx.excluded['C18-nested-density'] += 1
            ctx.label('excluded:nested_subset_not_sparser_by_median')
        else:
            for d in (d_ab, d_ba):
                for c in d.columns:
                    if c == 'bias_x':
                        continue
                    v = np.abs(d[c].values.astype(float))
                    tolz = 64 * col_scale_safe(a, c)
                    ctx.stat('self_zero', (v.max() / tolz) if len(v) else 0.0)
                    sig = 'self_difference_not_zero:median_rule_misjudges_nested_subset' if misjudged else f'self_difference_not_zero:{c}'
                    ctx.check(np.all(v <= tolz), sig, lambda: f'max |{c}| = {v.max():.3e} tol {tolz:.3e} '
                              f'(median interval parent {m_par:.4g}, sub-sample {m_sub:.4g})')
    wraps = bool(np.any(np.abs(np.diff(base['heading'].values)) > 180))
    ctx.mark_nontrivial(case['relation'] in ('denser', 'sparser', 'partial_overlap') and case['perturb'] > 0 and wraps
                        and case['columns'] != 'no_rph')


def col_scale_safe(df, name):
    src = {'north': 'lat', 'east': 'lon', 'down': 'alt'}.get(name, name)
    if src not in df.columns:
        return 1e-12
    return col_scale(df, name)


# ------------------------------------------------------------------------------ resample
def resample_strategy():
    return st.fixed_dictionaries({
        'sub': st.integers(0, 2 ** 31 - 1),
        'n': st.integers(3, 40),
        'jitter': st.booleans(),
        'm': st.integers(1, 30),
        'columns': st.sampled_from(['all', 'no_rph', 'permuted', 'extra']),
        'include_original': st.booleans(),
    })


def run_resample(case, ctx):
    from pyins import transform
    base = base_table(case['sub'], case['n'], case['jitter'])
    tab, _ = select_columns(case, base, base)
    if case['columns'] == 'permuted':
        tab = base[['heading', 'VD', 'lat', 'roll', 'VE', 'alt', 'pitch', 'lon', 'VN']]
    rng = np.random.RandomState(case['sub'] ^ 0x77)
    t = np.asarray(tab.index, float)
    span = t[-1] - t[0]
    tq = rng.uniform(t[0] - 0.2 * span, t[-1] + 0.2 * span, case['m'])
    if case['include_original']:
        tq = np.concatenate([tq, t[rng.randint(0, len(t), 3)], [t[0], t[-1]]])
    tq_arg = tq.copy()
    snap = tab.copy()
    res = ctx.sut(transform.resample_state, tab, tq_arg)
    ctx.check(tab.equals(snap) and np.array_equal(tq_arg, tq), 'input_modified', '')
    ctx.label(f"columns={case['columns']}", 'with_original_times' if case['include_original'] else 'random_times')
    inside = np.sort(tq[(tq >= t[0]) & (tq <= t[-1])])
    got = np.asarray(res.index, float)
    ctx.check(len(got) == len(inside) and np.array_equal(got, inside), 'resample_index',
              lambda: f'got {got.tolist()[:10]} expected sorted in-span {inside.tolist()[:10]}')
    ctx.check(list(res.columns) == list(tab.columns), 'column_order', lambda: f'{list(res.columns)} vs {list(tab.columns)}')
    if len(inside) == 0:
        return
    ref, C = own_resample(tab, inside)
    for c in tab.columns:
        if c in T.RPH and C is not None:
            continue
        v = res[c].values.astype(float)
        r = ref[c].values
        tol = 64 * ulp(max(np.abs(tab[c].values).max(), 1e-3)) * (1 + 0)
        dmax = np.abs(v - r).max()
        ctx.stat('linear_interp', dmax / tol)
        ctx.check(dmax <= tol, f'not_linear:{c}', lambda: f'{c}: max diff {dmax:.3e} tol {tol:.3e}')
    if C is not None:
        Cg = np.asarray(ROT.dcm_from_rph(res[T.RPH].values.astype(float)), float)
        ang = ROT.angle_between(Cg, C)
        ctx.stat('rotation_interp', ang.max() / 1e-9)
        k = int(np.argmax(ang))
        ctx.check(np.all(ang <= 1e-9), 'attitude_not_shortest_arc',
                  lambda: f't={inside[k]}: rotation differs from shortest-arc interpolation by {ang[k]:.3e} rad')
    # original rows at original times
    on = np.isin(inside, t)
    if on.any():
        ctx.label('original_rows_checked')
        for c in tab.columns:
            v = res[c].values.astype(float)[on]
            o = tab.loc[inside[on], c].values.astype(float)
            if c in T.RPH:
                dd = np.abs(T.wrap180(v - o))
                dd = np.minimum(dd, np.abs(dd - 360))
                ctx.check(np.all(dd <= 1e-9), f'original_row_changed:{c}', lambda: f'{v[:3]} vs {o[:3]}')
            else:
                ctx.check(np.all(np.abs(v - o) <= 64 * ulp(np.maximum(np.abs(o), 1e-3))), f'original_row_changed:{c}', lambda: f'{v[:3]} vs {o[:3]}')
    ctx.mark_nontrivial(C is not None and len(inside) >= 2 and bool(np.any(np.abs(np.diff(base['heading'].values)) > 180)))


# ------------------------------------------------------------------------------ perturb / Series
def series_strategy():
    return st.fixed_dictionaries({
        'pva': gen.pva_strategy(max_lat=85.0, max_pitch=80.0),
        'dir': st.lists(st.floats(-1, 1), min_size=9, max_size=9),
    })


def hash_int(case):
    """A stable integer derived from a case (cases of this clause carry no sub-seed)."""
    import hashlib
    import json
    return int(hashlib.sha1(json.dumps(case, sort_keys=True).encode()).hexdigest()[:8], 16)


def run_perturb(case, ctx):
    """d(perturb_pva(p, e), p) == e to first order (Series pairs), on a magnitude ladder."""
    from pyins import transform, sim
    p = gen.to_pva(case['pva'], 5.0)
    d = np.asarray(case['dir'], float)
    if np.abs(d).max() < 1e-3:
        d = np.array([0.5, -0.6, 0.3, 0.4, 0.2, -0.7, 0.6, -0.3, 0.9])
    d = d / np.abs(d).max() * np.array([200, 200, 200, 2, 2, 2, 2, 2, 2.0])
    if abs(p.pitch) + 2.5 >= 90:
        d[7] = -abs(d[7]) * np.sign(p.pitch)
    ctx.label('heading_near_180' if abs(abs(p.heading) - 180) < 3 else 'heading_generic',
              'lon_near_180' if abs(abs(p.lon) - 180) < 0.01 else 'lon_generic',
              'error_labels=' + ['canonical', 'reversed', 'permuted'][hash_int(case) % 3])
    tanl = abs(np.tan(np.radians(p.lat)))
    for s in (1.0, 0.1, 0.01):
        e = pd.Series(d * s, index=ERR)
        # the error is a LABELLED series: its entries may come in any order (and the state's too)
        lay = int(abs(hash_int(case)) % 3)
        e_arg = e if lay == 0 else e.iloc[::-1] if lay == 1 else e[list(np.random.RandomState(abs(hash_int(case)) % 10 ** 6).permutation(ERR))]
        q = ctx.sut(sim.perturb_pva, p, e_arg)
        diff = ctx.sut(transform.compute_state_difference, q, p)
        ctx.check(isinstance(diff, pd.Series) and list(diff.index) == ERR, 'series_schema', lambda: f'{type(diff)} {list(diff.index)}')
        r = diff.values.astype(float) - e.values
        bound_pos = 2 * np.linalg.norm(e.values[:3]) ** 2 * (1 + tanl) / 6.3e6 + 1e-7
        ctx.stat(f'recover_pos_{s}', np.abs(r[:3]).max() / bound_pos)
        ctx.check(np.abs(r[:3]).max() <= bound_pos, 'perturbation_not_recovered:position',
                  lambda: f'scale {s}: difference {diff.values[:3]} vs error {e.values[:3]} (residual {r[:3]}, bound {bound_pos:.3e})')
        ctx.check(np.abs(r[3:6]).max() <= 64 * ulp(max(np.abs(p.values[3:6]).max(), 1.0)), 'perturbation_not_recovered:velocity', lambda: f'{r[3:6]}')
        # angles: differences are reported in (-180, 180]; the perturbed angles themselves may leave that range
        ra = np.abs(T.wrap180(r[6:]))
        ra = np.minimum(ra, np.abs(ra - 360))
        ctx.check(ra.max() <= 256 * ulp(360.0), 'perturbation_not_recovered:angles', lambda: f'{diff.values[6:]} vs {e.values[6:]}')
        ctx.check(np.all(diff.values[6:] > -180 - 1e-12) and np.all(diff.values[6:] <= 180), 'angle_range', lambda: f'{diff.values[6:]}')
        back = ctx.sut(transform.compute_state_difference, p, q)
        ctx.check(np.abs(back.values.astype(float) + diff.values.astype(float))[:6].max() <= 1e-9 * (1 + np.abs(diff.values[:6]).max()),
                  'series_antisymmetry', lambda: f'{back.values} vs {-diff.values}')
    # the same for TABLES whose rows are far apart (tens of degrees of latitude, kilometres of altitude): every row is displaced by
    # the metres asked for at ITS OWN latitude and altitude (stacked perturb_lla), and the table difference recovers them row by row
    rng = np.random.RandomState(hash_int(case) % 10 ** 6)
    k = 2 + hash_int(case) % 5
    tab = pd.DataFrame([p.values.astype(float)] * k, columns=COLS, index=pd.Index(5.0 + np.arange(k), name='time'))
    tab.loc[tab.index[1:], 'lat'] = rng.uniform(-85, 85, k - 1)
    tab.loc[tab.index[1:], 'lon'] = rng.uniform(-180, 180, k - 1)
    tab.loc[tab.index[1:], 'alt'] = rng.uniform(-500, 20000, k - 1)
    per_row = bool(hash_int(case) % 2)
    for s in (1.0, 0.01):
        dr = d[:3] * s
        dr_arg = dr * rng.uniform(0.5, 1.0, (k, 1)) if per_row else dr
        qt = tab.copy()
        qt[['lat', 'lon', 'alt']] = ctx.sut(transform.perturb_lla, tab[['lat', 'lon', 'alt']].values, dr_arg)
        dt_ = ctx.sut(transform.compute_state_difference, qt, tab)
        want = np.broadcast_to(dr_arg, (k, 3))
        r = dt_[['north', 'east', 'down']].values.astype(float) - want
        bound = 2 * np.linalg.norm(want, axis=1) ** 2 * (1 + np.abs(np.tan(np.radians(tab['lat'].values)))) / 6.3e6 + 1e-7
        ctx.stat(f'recover_pos_table_{s}', (np.abs(r).max(axis=1) / bound).max())
        ctx.check(np.all(np.abs(r).max(axis=1) <= bound), 'perturbation_not_recovered:table_position',
                  lambda: f'scale {s}: rows at lat {tab["lat"].values.tolist()} alt {tab["alt"].values.tolist()} displaced by {np.asarray(dr_arg).tolist()} m: '
                          f'difference {dt_[["north", "east", "down"]].values.tolist()} (bounds {bound.tolist()})')
    ctx.label('table_rows=' + str(k), 'table_displacement=' + ('per_row' if per_row else 'common'))
    try:
        transform.compute_state_difference(p, p.to_frame().T)
        ctx.check(False, 'mixed_types_accepted', '')
    except ValueError:
        pass
    ctx.mark_nontrivial(abs(p.lat) > 1 and np.count_nonzero(d) >= 6)


# ------------------------------------------------------------------------------ angle reduction
SPECIAL_ANGLES = [0.0, -0.0, 180.0, -180.0, 540.0, -540.0, 360.0, -360.0, 1e-20, -1e-20, 1e300, -1e300, 179.99999999999997,
                  180.00000000000003, -179.99999999999997, -180.00000000000003, 720.0, 1e16, 5e-324]


def angle_strategy():
    ang = st.one_of(st.sampled_from(SPECIAL_ANGLES), st.floats(-1e4, 1e4), st.floats(allow_nan=False, allow_infinity=False),
                    st.integers(-100000, 100000).map(float), st.integers(-20, 20).map(lambda k: 180.0 * k))
    return st.fixed_dictionaries({'angles': st.lists(ang, min_size=1, max_size=12),
                                  'form': st.sampled_from(['scalar', 'array', 'list', 'series', 'frame', 'int'])})


def check_angle(ctx, x, r):
    ctx.check(-180 < r <= 180, 'angle_reduction_range', lambda: f'to_180_range({x!r}) = {r!r}')
    k = round((Fraction(x) - Fraction(r)) / 360)
    err = abs(Fraction(x) - Fraction(r) - 360 * Fraction(k))
    ctx.check(err <= Fraction(2 * float(np.spacing(360.0))), 'angle_reduction_not_congruent',
              lambda: f'to_180_range({x!r}) = {r!r}: not congruent modulo 360 (off by {float(err):.3e})')


def run_angles(case, ctx):
    from pyins import util
    xs = [float(v) for v in case['angles']]
    form = case['form']
    ctx.label(f'form={form}')
    if form == 'scalar':
        for x in xs:
            r = ctx.sut(util.to_180_range, x)
            check_angle(ctx, x, float(r))
    elif form == 'int':
        for x in xs:
            if abs(x) < 1e15 and x == int(x):
                r = ctx.sut(util.to_180_range, int(x))
                check_angle(ctx, float(int(x)), float(r))
    else:
        arr = np.array(xs)
        snap = arr.copy()
        if form == 'array':
            arg = arr
        elif form == 'list':
            arg = list(xs)
        elif form == 'series':
            arg = pd.Series(arr, index=np.arange(len(arr)) * 0.5)
        else:
            arg = pd.DataFrame({'roll': arr, 'heading': arr[::-1]})
        res = ctx.sut(util.to_180_range, arg)
        ctx.check(np.array_equal(arr, snap, equal_nan=True), 'input_modified', '')
        if form == 'series':
            ctx.check(isinstance(res, pd.Series) and res.index.equals(arg.index), 'series_schema', '')
            ctx.check(np.array_equal(arg.values, snap), 'input_modified', '')
        if form == 'frame':
            ctx.check(isinstance(res, pd.DataFrame) and list(res.columns) == ['roll', 'heading'], 'frame_schema', '')
            ctx.check(np.array_equal(arg['roll'].values, snap), 'input_modified', '')
            vals = res['roll'].values
            ctx.check(np.array_equal(res['heading'].values, vals[::-1]), 'frame_columns_disagree', '')
        else:
            vals = np.asarray(res, float)
        ctx.check(len(vals) == len(xs), 'shape', '')
        for x, r in zip(xs, vals):
            check_angle(ctx, x, float(r))
        # same values as the scalar form
        for x, r in zip(xs, vals):
            rs = float(util.to_180_range(x))
            ctx.check(rs == float(r), 'forms_disagree', lambda: f'{x!r}: scalar {rs!r} vs {form} {float(r)!r}')
    ctx.mark_nontrivial(any(abs(x) > 180 for x in xs))


CLAUSES = [
    Clause('difference', pair_strategy, run_difference, quick=(300, 8), thorough=(16000, 16)),
    Clause('resample', resample_strategy, run_resample, quick=(300, 4), thorough=(16000, 16)),
    Clause('perturb', series_strategy, run_perturb, quick=(300, 4), thorough=(16000, 16)),
    Clause('angles', angle_strategy, run_angles, quick=(1500, 2), thorough=(100000, 16)),
]


def selftest():
    ROT.selftest()
