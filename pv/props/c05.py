"""C05 - error-state coordinates, correction and output transforms agree.

Metamorphic / order-of-residual oracle: the residual between what correct_pva actually does
and what transform_to_output predicts must fall as magnitude^2 on a halving ladder.
"""
import numpy as np
import pandas as pd
from hypothesis import strategies as st

from ..core import Clause
from .. import gen, errcoords as EC
from ..tol import EPS, bits_equal

PROPERTY = 'C05'
RULE = ('Cases: PVA with |lat|<=85, |pitch|<=85 (stratum 80..85), any velocity incl. 0 and 300 m/s, any roll/heading '
        'incl. +-180; an error direction (9 numbers, single-group or mixed) scaled to base magnitudes (100 m, 1 m/s, '
        '1 deg) times the ladder {1, 1/4, 1/16, 1/64, 1/256}; both altitude modes. Oracles: left-inverse identity; '
        'state change under correct_pva (measured with own geodesy and with compute_state_difference) minus '
        'transform_to_output @ x must satisfy r(s) <= B s^2 + floor on every rung of the ladder {1,1/4,..,1/256} '
        'with B the analytic second-order bound; perturb-then-correct returns to the state with an order-2 residual; 2D rows exactly '
        'zero and alt/VD bit-unchanged by any correction. Non-trivial = |roll|,|pitch| > 5 deg, heading not within '
        '5 deg of a cardinal direction and the error mixes >= 2 groups.')
ASSUMPTIONS = ['second-order bound B = 4..6 x (|dr|^2 (1+tan lat)/R, |phi|^2 |V| + |phi||dv|, |phi|^2/cos^2 pitch); rounding floors 64..256 ulp']

LADDER = [1.0, 0.25, 0.0625, 0.015625, 0.00390625]


def case_strategy():
    return st.fixed_dictionaries({
        'pva': gen.pva_strategy(max_lat=85.0, max_pitch=85.0),
        'dir': st.lists(st.floats(-1, 1), min_size=9, max_size=9),
        'groups': st.sampled_from(['pos', 'vel', 'att', 'pos+vel', 'vel+att', 'pos+att', 'all', 'all', 'all']),
        'with_altitude': st.booleans(),
        'sub': st.integers(0, 10 ** 6),          # label order of the error series handed to perturb_pva
    })


def _direction(case):
    d = np.asarray(case['dir'], float)
    g = case['groups']
    mask = np.zeros(9)
    if 'pos' in g or g == 'all':
        mask[0:3] = 1
    if 'vel' in g or g == 'all':
        mask[3:6] = 1
    if 'att' in g or g == 'all':
        mask[6:9] = 1
    d = d * mask
    if not case['with_altitude']:
        d[2] = 0.0
        d[5] = 0.0
    if np.abs(d).max() < 1e-3:
        d = mask * np.array([0.6, -0.5, 0.3, 0.4, 0.7, -0.2, 0.5, -0.6, 0.8])
        if not case['with_altitude']:
            d[2] = d[5] = 0.0
    return d / np.abs(d).max()


def _labels(ctx, case, pva):
    ctx.label('mode=3D' if case['with_altitude'] else 'mode=2D', f"groups={case['groups']}",
              'pitch>=80' if abs(pva.pitch) >= 80 else 'pitch<80',
              'speed=0' if case['pva']['speed'] == 0 else 'speed>0')


def _nontrivial(case, pva):
    h = pva.heading % 90
    att_ok = abs(pva.roll) > 5 and abs(pva.pitch) > 5 and min(h, 90 - h) > 5
    return att_ok and ('+' in case['groups'] or case['groups'] == 'all')


def group_norms(v9):
    return np.array([np.linalg.norm(v9[0:3]), np.linalg.norm(v9[3:6]), np.linalg.norm(v9[6:9])])


def ladder_check(ctx, name, scales, res, floor, bound, info):
    """Order-of-residual test in bound form: r(s) <= B s^2 + floor on every rung of the ladder.
    (A consecutive-ratio test is unsound here: second- and third-order terms of opposite sign can
    cancel on one rung.) A first-order component e1*s violates it on the smallest rung as soon as
    e1 > B*s_min, i.e. a relative first-order error of ~|x|/4/256."""
    res = np.asarray(res)
    for g, gname in enumerate(('position', 'velocity', 'attitude')):
        for k, s in enumerate(scales):
            lim = bound[g] * s * s + floor[g]
            ctx.stat(f'{name}_{gname}', res[k, g] / lim)
            ctx.check(res[k, g] <= lim, f'{name}_not_second_order:{gname}',
                      lambda: f'{info}: residual {res[k, g]:.3e} at scale {s} exceeds B s^2 + floor = {lim:.3e} '
                              f'(B={bound[g]:.3e}); residuals over the ladder {res[:, g].tolist()}')


def run_correct(case, ctx):
    from pyins import error_model, transform
    pva = gen.to_pva(case['pva'], 3.0)
    wa = case['with_altitude']
    if not wa:
        pass
    em = error_model.InsErrorModel(wa)
    _labels(ctx, case, pva)
    d_out = _direction(case) * np.array([100, 100, 100, 1, 1, 1, 1, 1, 1.0])
    T_out = ctx.sut(em.transform_to_output, pva)
    T_int = ctx.sut(em.transform_to_internal, pva)
    kept = (T_out.copy(), T_int.copy())
    n = 9 if wa else 7
    ctx.check(T_out.shape == (9, n) and T_int.shape == (n, 9), 'shape', f'{T_out.shape} {T_int.shape}')
    # (i) left inverse
    I = T_int @ T_out
    cp = np.cos(np.radians(pva.pitch))
    V = np.linalg.norm(pva[EC.VEL].values.astype(float))
    tolI = 64 * EPS * (1 + V) * (1 + 1 / cp) ** 2 * 60
    eI = np.abs(I - np.eye(n)).max()
    ctx.stat('left_inverse', eI / tolI)
    ctx.check(eI <= tolI, 'left_inverse', lambda: f'|T_int T_out - I| = {eI:.3e} tol {tolI:.3e}')
    # (iv) exact zeros in 2D
    if not wa:
        ctx.check(np.all(T_out[2] == 0.0) and np.all(T_out[5] == 0.0), 'vertical_rows_not_zero',
                  lambda: f'down row {T_out[2]} VD row {T_out[5]}')
    # stacked (DataFrame) form == single (Series) form, row by row, incl. the exact zeros of the 2D mode
    p2 = pva.copy()
    p2[EC.VEL] = pva[EC.VEL].values.astype(float) * 0.37 + np.array([1.25, -2.75, 0.0 if not wa else 0.5])
    p2['heading'] = ((pva.heading + 123.4 + 180) % 360) - 180
    frame = pd.DataFrame([pva, p2, pva], index=[3.0, 4.0, 5.0])
    Ts = ctx.sut(em.transform_to_output, frame)
    ctx.check(Ts.shape == (3, 9, n), 'shape_stacked', str(Ts.shape))
    for k, row in enumerate((pva, p2, pva)):
        Tk = em.transform_to_output(row)
        dk = np.abs(Ts[k] - Tk).max()
        ctx.check(dk <= 4 * EPS * (1 + np.abs(Tk).max()), 'stacked_form_differs_from_single',
                  lambda: f'row {k}: transform_to_output(DataFrame) differs from transform_to_output(Series) by {dk:.3e}\n{Ts[k]}\n{Tk}')
    if not wa:
        ctx.check(np.all(Ts[:, 2, :] == 0.0) and np.all(Ts[:, 5, :] == 0.0), 'vertical_rows_not_zero:stacked',
                  lambda: f'VD rows {Ts[:, 5, :]}')
    # matrices handed out earlier belong to the caller: transforms computed afterwards for ANOTHER state must not change them
    other_out = ctx.sut(em.transform_to_output, p2)
    changed_out = not np.array_equal(T_out, kept[0])
    other_int = ctx.sut(em.transform_to_internal, p2)
    changed_int = not np.array_equal(T_int, kept[1])
    ctx.check(not changed_out and not changed_int, 'earlier_result_changed',
              lambda: f'the transform returned for one state changed after the transform of another state was computed '
                      f'(to_output changed: {changed_out}, to_internal changed: {changed_int})')
    Fs = ctx.sut(em.system_matrices, frame)
    for k, row in enumerate((pva, p2, pva)):
        Fk = em.system_matrices(row)
        for a, b, nm in zip(Fs, Fk, ('F', 'B_gyro', 'B_accel')):
            dk = np.abs(a[k] - b).max()
            ctx.check(dk <= 8 * EPS * (1 + np.abs(b).max()), f'system_matrices_stacked_differs:{nm}', lambda: f'row {k}: {dk:.3e}')
    x_unit = T_int @ d_out
    if not wa:
        # "any correction": also one far beyond the ladder (kilometres, degrees)
        for big in (20.0, -7.0):
            far = ctx.sut(em.correct_pva, pva, x_unit * big)
            ctx.check(far.alt == pva.alt and far.VD == pva.VD, 'correction_changed_vertical',
                      lambda: f'correction x{big}: alt {pva.alt!r}->{far.alt!r} VD {pva.VD!r}->{far.VD!r}')
    res_own, res_lib = [], []
    Rr = 6.4e6
    for s in LADDER:
        x = x_unit * s
        xs = x.copy()
        corrected = ctx.sut(em.correct_pva, pva, x)
        ctx.check(bits_equal(x, xs), 'input_modified:x', '')
        ctx.check(list(corrected.index) == list(pva.index), 'schema', str(list(corrected.index)))
        if not wa:
            # exact VALUE equality (-0.0 == 0.0: alt - (-0.0) turns a negative zero altitude into +0.0, the same altitude)
            ctx.check(corrected.alt == pva.alt and corrected.VD == pva.VD,
                      'correction_changed_vertical', lambda: f'alt {pva.alt!r}->{corrected.alt!r} VD {pva.VD!r}->{corrected.VD!r}')
        pred = T_out @ x
        own = EC.output_difference(pva, corrected)
        corrected.name = pva.name
        lib = ctx.sut(transform.compute_state_difference, pva, corrected)
        lib = lib[['north', 'east', 'down', 'VN', 'VE', 'VD', 'roll', 'pitch', 'heading']].values.astype(float)
        res_own.append(group_norms(own - pred))
        res_lib.append(group_norms(lib - pred))
    xr = np.linalg.norm(x_unit[:3] if wa else x_unit[:2])
    ph = np.linalg.norm(x_unit[-3:])
    dvn = np.linalg.norm(x_unit[3:6] if wa else x_unit[2:4])
    tanl = abs(np.tan(np.radians(pva.lat)))
    bound = 4 * np.array([xr ** 2 * (1 + tanl) / Rr, ph ** 2 * V + ph * dvn, np.degrees(ph ** 2) / cp ** 2])
    floor = np.array([64 * np.spacing(90.0) * np.radians(1) * Rr, 64 * np.spacing(max(V, 1.0)), 256 * np.spacing(180.0) / cp])
    ladder_check(ctx, 'correct', LADDER, res_own, floor, bound, f'pva={pva.values.tolist()} x={x_unit.tolist()}')
    ladder_check(ctx, 'correct_lib', LADDER, res_lib, floor, bound, f'pva={pva.values.tolist()} x={x_unit.tolist()}')
    # 3D <-> 2D embedding: the 7-state correction equals the 9-state one with DR3 = 0, DV3 = VE*phi1 - VN*phi2
    if not wa:
        x7 = x_unit * 0.25
        x9 = np.array([x7[0], x7[1], 0.0, x7[2], x7[3], pva.VE * x7[4] - pva.VN * x7[5], x7[4], x7[5], x7[6]])
        a = em.correct_pva(pva, x7)
        b = error_model.InsErrorModel(True).correct_pva(pva, x9)
        b['VD'] = pva.VD
        da = np.abs(a.values.astype(float) - b.values.astype(float))
        ctx.check(np.all(da <= 1e-9 * (1 + np.abs(a.values.astype(float)))), 'embedding_2d_3d', lambda: f'{a.values} vs {b.values}')
    ctx.mark_nontrivial(_nontrivial(case, pva))


def run_perturb(case, ctx):
    """correct_pva(perturb_pva(pva, e), T_int @ e) == pva up to second order."""
    from pyins import error_model, sim
    pva = gen.to_pva(case['pva'], 3.0)
    wa = case['with_altitude']
    if not wa:
        pva['VD'] = 0.0
    em = error_model.InsErrorModel(wa)
    _labels(ctx, case, pva)
    d_out = _direction(case) * np.array([100, 100, 100, 1, 1, 1, 1, 1, 1.0])
    cols = gen.ERR_COLS
    cp = np.cos(np.radians(pva.pitch))
    if abs(pva.pitch) + abs(d_out[7]) >= 89.0:
        d_out[7] *= -np.sign(pva.pitch) * np.sign(d_out[7]) if d_out[7] != 0 else 1.0
    V = np.linalg.norm(pva[EC.VEL].values.astype(float))
    res = []
    for s in LADDER:
        e = pd.Series(d_out * s, index=cols)
        # the error is a labelled series: reversed / permuted label order is the same error
        lay = case['sub'] % 3 if 'sub' in case else 0
        e_arg = e if lay == 0 else e.iloc[::-1] if lay == 1 else e[list(np.random.RandomState(case['sub'] % 10 ** 6).permutation(cols))]
        es = e_arg.copy()
        ps = pva.copy()
        ins = ctx.sut(sim.perturb_pva, pva, e_arg)
        ctx.check(e_arg.equals(es) and pva.equals(ps), 'input_modified:perturb_pva', '')
        x = ctx.sut(em.transform_to_internal, ins) @ e.values
        back = ctx.sut(em.correct_pva, ins, x)
        res.append(group_norms(EC.output_difference(back, pva)))
        if s == 1.0:
            # perturb_pva itself: exact in velocity/angles, first order in metres
            dd = EC.output_difference(ins, pva) - e.values
            tanl = abs(np.tan(np.radians(pva.lat)))
            ctx.check(np.linalg.norm(dd[:3]) <= 4 * (np.linalg.norm(e.values[:3]) ** 2 * (1 + tanl) / 6.4e6) + 1e-8 and
                      np.abs(dd[3:6]).max() <= 16 * np.spacing(max(V, 1.0)) and np.abs(dd[6:]).max() <= 64 * np.spacing(360.0),
                      'perturb_pva_mismatch', lambda: f'{dd}')
    floor = np.array([64 * np.spacing(90.0) * np.radians(1) * 6.4e6, 64 * np.spacing(max(V, 1.0)), 256 * np.spacing(180.0) / cp])
    ph = np.radians(np.linalg.norm(d_out[6:])) / cp
    bound = 6 * np.array([(np.linalg.norm(d_out[:3]) ** 2 * (1 + abs(np.tan(np.radians(pva.lat)))) / 6.4e6),
                          ph ** 2 * V + ph * np.linalg.norm(d_out[3:6]),
                          np.degrees(ph ** 2) / cp])
    ladder_check(ctx, 'perturb_correct', LADDER, res, floor, bound, f'pva={pva.values.tolist()} e={d_out.tolist()}')
    ctx.mark_nontrivial(_nontrivial(case, pva))


CLAUSES = [
    Clause('correct', case_strategy, run_correct, quick=(400, 8), thorough=(24000, 16)),
    Clause('perturb', case_strategy, run_perturb, quick=(300, 8), thorough=(16000, 16)),
]
