"""C15 - coning/sculling increments are high-order accurate body-frame integrals.

Oracle: longdouble RK4 + Richardson solution of dC/dt = C[w x], du/dt = C f per interval
(pv/ref/increments.py); order-of-residual measured on an interval ladder 160 .. 1.25 ms.
"""
import numpy as np
import pandas as pd
from hypothesis import strategies as st

from ..core import Clause
from ..ref import increments as RI
from ..tol import observed_order, bits_equal

PROPERTY = 'C15'
RULE = ('Cases: 3-axis signals that are linear in time (w = a + b t, f = d + e t; |a|<=3 rad/s, |b|<=30 rad/s^2, '
        '|d|<=3 g, |e|<=100 m/s^3, a and b not parallel) or sums of 1..3 sinusoids per axis (<=3 rad/s, <=3 g, '
        '0.2..8 rad/s), coefficients expanded from an integer sub-seed; sensor type rate (exact samples) or increment '
        '(analytic integrals incl. the "before" sample); interval ladder {160,80,40,20,10,5,2.5,1.25} ms. Oracle: '
        'longdouble RK4+Richardson exact rotation vector / start-frame velocity integral; bound-form order test on every '
        'rung: linear signals theta error <= c S5 h^5 (exact through the cubic coning term) and dv + a x (a x d) h^3/6 '
        '<= c S4 h^4 (the only cubic discrepancy is the neglected rotation term); sinusoids both <= c S3 h^3; S from '
        'signal norms, c calibrated (>=5x margin). Table clause: irregular/uniform stamps, one row per sample after '
        'the first, index and dt column bitwise. Non-trivial = |a x b| and |a x e + d x b| above 1 percent of the '
        'products of norms and >= 3 rungs above the floor.')
ASSUMPTIONS = ['order clauses use uniform stamps for the increment type (its coning formula presumes equal intervals)',
               'rounding floor = 16 ulp of the increment magnitude + the reference error estimate']

LADDER = np.array([0.16, 0.08, 0.04, 0.02, 0.01, 0.005, 0.0025, 0.00125])
COLS = ['gyro_x', 'gyro_y', 'gyro_z', 'accel_x', 'accel_y', 'accel_z']
LD = np.longdouble


def lin_strategy():
    return st.fixed_dictionaries({
        'sensor_type': st.sampled_from(['rate', 'increment']),
        'wscale': st.sampled_from([3.0, 1.0, 0.3]),
        'bscale': st.sampled_from([30.0, 10.0, 1.0]),
        'fscale': st.sampled_from([30.0, 10.0, 1.0]),
        'escale': st.sampled_from([100.0, 10.0, 1.0]),
        # direction classes: rotation about one body coordinate axis (only one gyro column is ever non-zero: no coning, but the
        # sculling term stays), no rotation at all, specific force along one coordinate axis
        'wform': st.sampled_from(['general', 'general', 'general', 'single_axis', 'single_axis', 'zero']),
        'fform': st.sampled_from(['general', 'general', 'single_axis']),
        'sub': st.integers(0, 2 ** 31 - 1),
    })


def _unit(rng):
    v = rng.randn(3)
    return v / np.linalg.norm(v)


# Bound-form order-of-residual test: r(h) <= c * S * h^p + floor on EVERY rung, with S built from the
# signal norms (the structure of the first neglected term) and c calibrated once on the unchanged tree
# (>= 5x margin over >= 4000 cases, see DESIGN.md C15). A slope fit is unsound here: terms of
# neighbouring order with opposite signs produce dips in the residual curve.
C_THETA_LIN = 0.05      # x (|a|^2 + |b|) |a||b| h^5      measured max 0.0042 over 3700 cases
C_DV_LIN = 2.5          # x [|b||e|h^4 + rho^2 phi - |a|^2|d|h^3], rho=|a|h+|b|h^2, phi=|d|h+|e|h^2  (all order >= 4); measured max 0.44 over 4000 cases
C_THETA_SIN = 0.5       # x (W2 + W0 W1 + W0^3) h^3       measured max 0.082 over 3000 cases
C_DV_SIN = 1.0          # x (F2 + W0 F1 + W1 F0 + W0^2 F0) h^3   measured max 0.080 over 3000 cases


def bound_check(ctx, name, h, res, S, p, c, floor, info):
    lim = c * (S * h ** p if np.isscalar(S) else S) + floor
    S = S if np.isscalar(S) else float(S[0] / h[0] ** p)
    ratio = res / lim
    ctx.stat(name, ratio.max())
    k = int(np.argmax(ratio))
    ctx.check(np.all(res <= lim), f'{name}_exceeds_order_{p}_bound',
              lambda: f'{info}: residual {res[k]:.3e} at h={h[k]} exceeds c S h^{p} + floor = {lim[k]:.3e} (c={c}, S={S:.3e}); '
                      f'residuals {res.tolist()} at h={h.tolist()}')
    return int(np.sum(lim - floor > 10 * floor))


def run_linear(case, ctx):
    from pyins import strapdown
    rng = np.random.RandomState(case['sub'])
    a = _unit(rng) * case['wscale'] * rng.uniform(0.3, 1)
    b = _unit(rng) * case['bscale'] * rng.uniform(0.3, 1)
    d = _unit(rng) * case['fscale'] * rng.uniform(0.3, 1)
    e = _unit(rng) * case['escale'] * rng.uniform(0.3, 1)
    wform, fform = case.get('wform', 'general'), case.get('fform', 'general')
    ax = np.eye(3)[case['sub'] % 3]
    if wform == 'single_axis':
        a, b = ax * np.linalg.norm(a) * np.sign(a[0]), ax * np.linalg.norm(b) * np.sign(b[0])
    elif wform == 'zero':
        a, b = np.zeros(3), np.zeros(3)
    if fform == 'single_axis':
        fx = np.eye(3)[(case['sub'] // 3) % 3]
        d, e = fx * np.linalg.norm(d) * np.sign(d[0]), fx * np.linalg.norm(e) * np.sign(e[0])
    stype = case['sensor_type']
    ctx.label(f'type={stype}', f"w={case['wscale']}", f"b={case['bscale']}", f'rate_direction={wform}', f'force_direction={fform}')
    hs = LADDER[(np.linalg.norm(a) * LADDER + np.linalg.norm(b) * LADDER ** 2) <= 0.5]
    if len(hs) < 4:
        hs = LADDER[-4:]
    aL, bL, dL, eL = (np.asarray(v, LD) for v in (a, b, d, e))
    wf = lambda t: aL + np.outer(t, bL)
    ff = lambda t: dL + np.outer(t, eL)
    rv, u, referr = RI.exact_increments(wf, ff, np.zeros(len(hs)), hs)
    th = np.empty((len(hs), 3))
    dv = np.empty((len(hs), 3))
    handed_out = []
    for k, h in enumerate(hs):
        if stype == 'rate':
            rows = [np.hstack([a, d]), np.hstack([a + b * h, d + e * h])]
        else:
            I = lambda t0, t1: np.hstack([a * (t1 - t0) + b * (t1 ** 2 - t0 ** 2) / 2, d * (t1 - t0) + e * (t1 ** 2 - t0 ** 2) / 2])
            rows = [I(-h, 0.0), I(0.0, h)]
        imu = pd.DataFrame(rows, index=[0.0, h], columns=COLS)
        inc = ctx.sut(strapdown.compute_increments_from_imu, imu, stype)
        ctx.check(len(inc) == 1 and inc.index[0] == h and inc['dt'].iloc[0] == h, 'table', str(inc))
        th[k] = inc[['theta_x', 'theta_y', 'theta_z']].values[0]
        dv[k] = inc[['dv_x', 'dv_y', 'dv_z']].values[0]
        handed_out.append(inc)
    # a table handed out earlier is the caller's: later calls (here: with tables of the same shape) must not change it
    for k, inc in enumerate(handed_out):
        ctx.check(inc['dt'].iloc[0] == hs[k] and bits_equal(inc[['theta_x', 'theta_y', 'theta_z']].values[0], th[k])
                  and bits_equal(inc[['dv_x', 'dv_y', 'dv_z']].values[0], dv[k]), 'earlier_result_changed',
                  lambda: f'the increments returned for h={hs[k]} changed after later calls: {inc.values.tolist()}')
    et = np.linalg.norm(np.asarray(th - rv, float), axis=1)
    res = np.asarray(dv - u, float)
    cubic = -np.cross(a, np.cross(a, d))[None, :] * (hs ** 3)[:, None] / 6
    ev = np.linalg.norm(res, axis=1)
    evc = np.linalg.norm(res - cubic, axis=1)
    floor_t = 16 * np.spacing(np.linalg.norm(th, axis=1).max()) + referr
    floor_v = 16 * np.spacing(np.linalg.norm(dv, axis=1).max()) + referr
    info = f'a={a.tolist()} b={b.tolist()} d={d.tolist()} e={e.tolist()} type={stype}'
    na, nb, nd, ne = (np.linalg.norm(v) for v in (a, b, d, e))
    S5 = (na ** 2 + nb) * na * nb
    # first neglected terms of the velocity increment: (rotation)^2 x force and (b x e) h^4, all of order >= 4
    rho = na * hs + nb * hs ** 2
    S4 = nb * ne * hs ** 4 + rho ** 2 * (nd * hs + ne * hs ** 2) - na ** 2 * nd * hs ** 3
    ok1 = bound_check(ctx, 'theta_linear', hs, et, S5, 5, C_THETA_LIN, floor_t, info) >= 3
    ok2 = bound_check(ctx, 'dv_minus_neglected_rotation_term', hs, evc, S4, 4, C_DV_LIN, floor_v, info) >= 3
    # (the order of dv + a x (a x d) h^3/6 being >= 3.5 IS the statement that the only cubic discrepancy
    #  of the velocity increment is the neglected second-order rotation term)
    vis = np.linalg.norm(cubic, axis=1) > 10 * evc
    if vis.any():
        ctx.label('cubic_term_visible')
    axb = np.linalg.norm(np.cross(a, b)) / max(np.linalg.norm(a) * np.linalg.norm(b), 1e-300)
    sc = np.linalg.norm(np.cross(a, e) + np.cross(d, b)) / max(np.linalg.norm(a) * np.linalg.norm(e) + np.linalg.norm(d) * np.linalg.norm(b), 1e-300)
    if wform == 'general':
        ctx.mark_nontrivial(ok1 and ok2 and axb > 0.01 and sc > 0.01)
    else:       # single-axis rotation: no coning by construction; non-trivial when the sculling term is there
        ctx.mark_nontrivial(bool(ok2 and wform == 'single_axis' and sc > 0.01))


def sin_strategy():
    return st.fixed_dictionaries({
        'sensor_type': st.sampled_from(['rate', 'increment']),
        'nharm': st.integers(1, 3),
        'wamp': st.sampled_from([3.0, 1.0, 0.1]),
        'famp': st.sampled_from([30.0, 10.0, 1.0]),
        't0': st.floats(0.0, 10.0),
        'sub': st.integers(0, 2 ** 31 - 1),
    })


def _sinus(case):
    rng = np.random.RandomState(case['sub'])
    k = case['nharm']
    Aw = rng.uniform(-1, 1, (k, 3)) * case['wamp'] / k
    Ww = rng.uniform(0.2, 8, (k, 3))
    Pw = rng.uniform(0, 2 * np.pi, (k, 3))
    Af = rng.uniform(-1, 1, (k, 3)) * case['famp'] / k
    Wf = rng.uniform(0.2, 8, (k, 3))
    Pf = rng.uniform(0, 2 * np.pi, (k, 3))
    c0 = np.array([0.0, 0.0, -9.8])

    def w(t):
        t = np.asarray(t, LD)[:, None, None]
        return np.sum(np.asarray(Aw, LD) * np.sin(np.asarray(Ww, LD) * t + np.asarray(Pw, LD)), axis=1)

    def f(t):
        t = np.asarray(t, LD)[:, None, None]
        return np.sum(np.asarray(Af, LD) * np.sin(np.asarray(Wf, LD) * t + np.asarray(Pf, LD)), axis=1) + np.asarray(c0, LD)

    def Iw(t0, t1):     # analytic integral of w over [t0, t1]
        return np.sum(-Aw / Ww * (np.cos(Ww * t1 + Pw) - np.cos(Ww * t0 + Pw)), axis=0)

    def If(t0, t1):
        return np.sum(-Af / Wf * (np.cos(Wf * t1 + Pf) - np.cos(Wf * t0 + Pf)), axis=0) + c0 * (t1 - t0)
    aw, af = np.abs(Aw), np.abs(Af)
    norms = (np.linalg.norm(aw.sum(0)), np.linalg.norm((aw * Ww).sum(0)), np.linalg.norm((aw * Ww ** 2).sum(0)),
             np.linalg.norm(af.sum(0) + np.abs(c0)), np.linalg.norm((af * Wf).sum(0)), np.linalg.norm((af * Wf ** 2).sum(0)))
    return w, f, Iw, If, norms


def run_sinusoid(case, ctx):
    from pyins import strapdown
    w, f, Iw, If, norms = _sinus(case)
    stype = case['sensor_type']
    t0 = case['t0']
    hs = LADDER[:6]
    ctx.label(f'type={stype}', f"harmonics={case['nharm']}", f"wamp={case['wamp']}")
    rv, u, referr = RI.exact_increments(w, f, np.full(len(hs), t0), hs)
    th = np.empty((len(hs), 3))
    dv = np.empty((len(hs), 3))
    for k, h in enumerate(hs):
        if stype == 'rate':
            rows = [np.hstack([np.asarray(w([t0])[0], float), np.asarray(f([t0])[0], float)]),
                    np.hstack([np.asarray(w([t0 + h])[0], float), np.asarray(f([t0 + h])[0], float)])]
        else:
            rows = [np.hstack([Iw(t0 - h, t0), If(t0 - h, t0)]), np.hstack([Iw(t0, t0 + h), If(t0, t0 + h)])]
        imu = pd.DataFrame(rows, index=[t0, t0 + h], columns=COLS)
        inc = ctx.sut(strapdown.compute_increments_from_imu, imu, stype)
        th[k] = inc[['theta_x', 'theta_y', 'theta_z']].values[0]
        dv[k] = inc[['dv_x', 'dv_y', 'dv_z']].values[0]
    et = np.linalg.norm(np.asarray(th - rv, float), axis=1)
    ev = np.linalg.norm(np.asarray(dv - u, float), axis=1)
    # t0 + h is rounded to float64: the sample time differs from the ideal one by <= ulp(t0+h)
    jitter = np.spacing(t0 + hs.max()) * 40
    floor_t = 16 * np.spacing(np.linalg.norm(th, axis=1).max()) + referr + jitter * case['wamp']
    floor_v = 16 * np.spacing(np.linalg.norm(dv, axis=1).max()) + referr + jitter * (case['famp'] + 10)
    info = f'case={case}'
    W0, W1, W2, F0, F1, F2 = norms
    ok1 = bound_check(ctx, 'theta_sinusoid', hs, et, W2 + W0 * W1 + W0 ** 3, 3, C_THETA_SIN, floor_t, info) >= 3
    ok2 = bound_check(ctx, 'dv_sinusoid', hs, ev, F2 + W0 * F1 + W1 * F0 + W0 ** 2 * F0, 3, C_DV_SIN, floor_v, info) >= 3
    ctx.mark_nontrivial(ok1 and ok2 and case['wamp'] >= 1.0)


def table_strategy():
    return st.fixed_dictionaries({
        'sensor_type': st.sampled_from(['rate', 'increment']),
        'n': st.integers(2, 60),
        'stamps': st.sampled_from(['uniform', 'irregular', 'irregular']),
        't0': st.sampled_from([0.0, 1234.5, -17.25]),
        'ints': st.sampled_from(['none', 'none', 'accel', 'gyro', 'both']),      # integer-valued readings stored with an integer dtype
        'sub': st.integers(0, 2 ** 31 - 1),
    })


def run_table(case, ctx):
    from pyins import strapdown
    rng = np.random.RandomState(case['sub'])
    n = case['n']
    if case['stamps'] == 'uniform':
        dt = np.full(n - 1, float(rng.choice([0.001, 0.01, 0.16])))
    else:
        dt = np.empty(n - 1)
        dt[0] = 10 ** rng.uniform(-3, -0.8)
        for i in range(1, n - 1):
            dt[i] = np.clip(dt[i - 1] * rng.uniform(1 / 3, 3), 1e-3, 0.16)
    t = case['t0'] + np.concatenate([[0.0], np.cumsum(dt)])
    data = rng.randn(n, 6) * [1, 1, 1, 10, 10, 10]
    ints = case.get('ints', 'none')
    int_cols = {'none': [], 'accel': COLS[3:], 'gyro': COLS[:3], 'both': COLS}[ints]
    if ints in ('accel', 'both'):
        data[:, 3:] = np.rint(data[:, 3:]) + 0.0          # + 0.0: no negative zeros, which an integer cannot store
    if ints in ('gyro', 'both'):
        data[:, :3] = np.rint(data[:, :3] * 3) + 0.0
    imu = pd.DataFrame(data, index=pd.Index(t, name='time'), columns=COLS)
    as_float = imu.copy()
    if int_cols:          # a hand-built table: whole-number readings kept as int64 next to float columns
        imu = imu.astype({c: np.int64 for c in int_cols})
    imu['extra'] = 7.0
    layout = case['sub'] % 4
    if layout == 1:       # accelerometer columns first
        imu = imu[['accel_x', 'accel_y', 'accel_z', 'gyro_x', 'gyro_y', 'gyro_z', 'extra']]
    elif layout == 2:     # an unrelated leading column, interleaved sensors
        imu = imu[['extra', 'gyro_x', 'accel_x', 'gyro_y', 'accel_y', 'gyro_z', 'accel_z']]
    canonical = imu[COLS]
    snap = imu.copy()
    inc = ctx.sut(strapdown.compute_increments_from_imu, imu, case['sensor_type'])
    ctx.check(imu.equals(snap), 'input_modified', '')
    ctx.label(f"type={case['sensor_type']}", f"stamps={case['stamps']}", f'column_layout={layout if layout < 3 else 0}', f'int_columns={ints}')
    if int_cols:
        flt = strapdown.compute_increments_from_imu(as_float, case['sensor_type'])
        # conversion of whole numbers to float64 is exact, so the unchanged code agrees bit for bit; 16 ulp of the largest entry are
        # allowed for implementations that order their arithmetic differently for the two dtypes
        ctx.check(inc.values.dtype == np.float64 and np.abs(inc.values - flt.values).max() <= 16 * np.spacing(np.abs(flt.values).max()), 'dtype_dependent',
                  lambda: f'integer-typed {ints} columns: max difference to the same values as float64 {np.abs(inc.values.astype(float) - flt.values).max():.3e}')
    # a result handed out earlier is not touched by a later call on a different table of the same shape
    inc_snap = inc.copy()
    other = as_float[COLS] * 0.5 + 1.0
    strapdown.compute_increments_from_imu(other, case['sensor_type'])
    ctx.check(bits_equal(inc.values, inc_snap.values) and inc.index.equals(inc_snap.index), 'earlier_result_changed',
              'the returned table changed when the function was called again with another table of the same length')
    # columns are addressed by label: the same table in another column order gives the same result
    ref_inc = strapdown.compute_increments_from_imu(canonical, case['sensor_type'])
    ctx.check(bits_equal(inc.values, ref_inc.values), 'column_order_dependent', 'result depends on the order of the labelled IMU columns')
    ctx.check(list(inc.columns) == ['dt', 'theta_x', 'theta_y', 'theta_z', 'dv_x', 'dv_y', 'dv_z'], 'columns', str(list(inc.columns)))
    ctx.check(len(inc) == n - 1, 'row_count', f'{len(inc)} vs {n - 1}')
    ctx.check(bits_equal(np.asarray(inc.index, float), t[1:]), 'index_not_sample_times', lambda: f'{list(inc.index)[:5]} vs {t[1:6]}')
    ctx.check(bits_equal(inc['dt'].values, np.diff(t)), 'dt_column', lambda: f"{inc['dt'].values[:5]} vs {np.diff(t)[:5]}")
    ctx.check(np.all(np.isfinite(inc.values)), 'not_finite', '')
    # row k depends on samples k-1 and k only (locality): recompute from the two-row slice
    k = int(rng.randint(1, n))
    two = ctx.sut(strapdown.compute_increments_from_imu, imu.iloc[k - 1:k + 1], case['sensor_type'])
    ctx.check(bits_equal(two.values[0], inc.values[k - 1]), 'row_not_local',
              lambda: f'row {k}: {inc.values[k - 1]} vs from its two samples {two.values[0]}')
    try:
        strapdown.compute_increments_from_imu(imu, 'bogus')
        ctx.check(False, 'bad_sensor_type_accepted', '')
    except ValueError:
        pass
    ctx.mark_nontrivial(case['stamps'] == 'irregular' and n >= 4)


CLAUSES = [
    Clause('linear', lin_strategy, run_linear, quick=(160, 8), thorough=(6000, 16)),
    Clause('sinusoid', sin_strategy, run_sinusoid, quick=(120, 8), thorough=(4000, 16)),
    Clause('table', table_strategy, run_table, quick=(300, 2), thorough=(8000, 8)),
]


def selftest():
    RI.selftest()
