"""C17 - attitude representations and rotation primitives are consistent.

Oracle: own elementary-trig DCM with pinned sign conventions, own Euler extraction, longdouble
Rodrigues formula, central differences (pv/ref/rot.py never imports pyins or scipy Rotation).
"""
import numpy as np
import pandas as pd
from hypothesis import strategies as st

from ..core import Clause
from ..ref import rot as R
from ..tol import EPS

PROPERTY = 'C17'
RULE = ('Cases: Euler triples with roll, heading in [-360, 360] and pitch in (-90, 90) from strata '
        '{0, +-(90-1e-6..1), cardinal headings, uniform}, evaluated single and stacked (batch from '
        'an integer sub-seed); rotation vectors with uniform direction and norm log-uniform in '
        '[1e-12, pi] plus {0, the branch threshold 1e-3 and +-1..64 ulp around it, pi}. Oracles: '
        'own DCM typed entry by entry with convention pins (heading north->east, pitch nose-up, '
        'roll right-wing-down), longdouble Rodrigues, central-difference Euler Jacobian. '
        'Non-trivial = all three angles non-zero (Euler) / norm within two decades of the '
        'threshold or above 1 rad with >= 2 non-zero components (rotation vectors).')
ASSUMPTIONS = ['entry tolerance 8..16 eps; Euler round trip tolerance 32 eps/cos(pitch) rad',
               'x87 longdouble reference for the exponential map']

PITCH_SPECIAL = [0.0, 89.0, -89.0, 89.9, -89.9, 90 - 1e-3, -(90 - 1e-3), 90 - 1e-6, -(90 - 1e-6), 45.0, -45.0]
HEAD_SPECIAL = [0.0, 90.0, -90.0, 180.0, -180.0, 270.0, -270.0, 360.0, -360.0, 1e-9, 179.9999999]


def euler_strategy():
    return st.fixed_dictionaries({
        'roll': st.one_of(st.sampled_from(HEAD_SPECIAL), st.floats(-360, 360), st.floats(-180, 180)),
        'pitch': st.one_of(st.sampled_from(PITCH_SPECIAL), st.floats(-89.999, 89.999), st.floats(-85, 85)),
        'heading': st.one_of(st.sampled_from(HEAD_SPECIAL), st.floats(-360, 360), st.floats(-180, 180)),
        'sub': st.integers(0, 2 ** 31 - 1),
    })


def _wrap(d):
    return (np.asarray(d) + 180.0) % 360.0 - 180.0


def _euler_batch(case, k=16):
    rng = np.random.RandomState(case['sub'])
    a = np.column_stack([rng.uniform(-360, 360, k), np.degrees(np.arcsin(rng.uniform(-1, 1, k))) * 0.9999,
                         rng.uniform(-360, 360, k)])
    a[0] = [case['roll'], case['pitch'], case['heading']]
    return a


def run_euler(case, ctx):
    from pyins import transform
    a = _euler_batch(case)
    p0 = abs(case['pitch'])
    ctx.label('pitch=' + ('0' if p0 == 0 else '<80' if p0 < 80 else '<89.9' if p0 < 89.9 else '>=89.9'),
              'heading_cardinal' if case['heading'] % 90 == 0 else 'heading_generic',
              'roll>180' if abs(case['roll']) > 180 else 'roll<=180')
    C = ctx.sut(transform.mat_from_rph, a)
    ctx.check(C.shape == (len(a), 3, 3), 'shape', str(C.shape))
    Cref = R.dcm_from_rph(a, np.longdouble)
    e = np.abs(np.asarray(C - Cref, float)).max(axis=(1, 2))
    ctx.stat('dcm', e.max() / (16 * EPS))
    i = int(np.argmax(e))
    ctx.check(np.all(e <= 16 * EPS), 'dcm_convention',
              lambda: f'rph={a[i].tolist()} |C-ref|={e[i]:.3e}\n{C[i]}\n{np.asarray(Cref[i], float)}')
    I = np.einsum('nij,nkj->nik', C, C)
    ctx.check(np.abs(I - np.eye(3)).max() <= 16 * EPS and np.abs(np.linalg.det(C) - 1).max() <= 16 * EPS,
              'not_proper_rotation', lambda: f'{np.abs(I - np.eye(3)).max():.3e}')
    # single == stacked
    C0 = ctx.sut(transform.mat_from_rph, a[0])
    ctx.check(C0.shape == (3, 3) and np.abs(C0 - C[0]).max() <= 4 * EPS, 'form_single_mat_from_rph', '')
    Cl = ctx.sut(transform.mat_from_rph, a.tolist())
    ctx.check(np.array_equal(Cl, C), 'form_list_mat_from_rph', '')
    # whole-degree angles as an integer array (stacked and single) and as a table: the same rotations as the float values
    ai = np.rint(a).astype(np.int64)
    Cri = np.asarray(R.dcm_from_rph(ai.astype(float), np.longdouble), float)
    for tag, arg, ref in (('int_stack', ai, Cri), ('int_single', ai[0], Cri[0]), ('int_lists', ai.tolist(), Cri),
                          ('frame', pd.DataFrame(a, columns=['roll', 'pitch', 'heading']), np.asarray(Cref, float))):
        Ci = ctx.sut(transform.mat_from_rph, arg)
        ei = np.abs(np.asarray(Ci, float) - ref).max() if np.shape(Ci) == np.shape(ref) else np.inf
        ctx.check(ei <= 16 * EPS, f'form_{tag}_mat_from_rph', lambda: f'{tag}: |C - ref| = {ei:.3e} (shape {np.shape(Ci)})')
    # the same array object with new contents gives the new rotation (no result remembered by identity)
    buf = a[0].copy()
    transform.mat_from_rph(buf)
    buf[:] = a[-1]
    Cb = ctx.sut(transform.mat_from_rph, buf)
    ctx.check(np.abs(Cb - np.asarray(Cref[-1], float)).max() <= 16 * EPS, 'stale_after_inplace_change', 'mat_from_rph(buffer) after the buffer was overwritten in place')
    # convention pins evaluated on the library itself
    r, p, h = a[0]
    H = transform.mat_from_rph([0.0, 0.0, h])
    ctx.check(np.abs(H @ [1, 0, 0] - [np.cos(np.radians(h)), np.sin(np.radians(h)), 0]).max() <= 8 * EPS,
              'heading_sign', lambda: f'heading {h}: body x -> {H @ [1, 0, 0]}')
    P = transform.mat_from_rph([0.0, p, 0.0])
    ctx.check(abs((P @ [1, 0, 0])[2] + np.sin(np.radians(p))) <= 8 * EPS, 'pitch_sign',
              lambda: f'pitch {p}: body x -> {P @ [1, 0, 0]}')
    Q = transform.mat_from_rph([r, 0.0, 0.0])
    ctx.check(abs((Q @ [0, 1, 0])[2] - np.sin(np.radians(r))) <= 8 * EPS, 'roll_sign',
              lambda: f'roll {r}: body y -> {Q @ [0, 1, 0]}')
    # round trip
    b = ctx.sut(transform.mat_to_rph, C)
    ctx.check(b.shape == a.shape, 'shape', str(b.shape))
    cp = np.cos(np.radians(a[:, 1]))
    tol = np.degrees(32 * EPS / cp + 8 * EPS)
    d = np.abs(_wrap(b - a))
    # scipy's as_euler switches to its gimbal-lock branch within 1e-7 rad of pitch = +-90 deg and
    # returns a different (equivalent) triple there; "away from pitch +-90" = further than 1e-4 deg.
    gz = np.abs(a[:, 1]) > 90 - 1e-4
    if gz.any():
        ctx.label('gimbal_zone')
        Cb = transform.mat_from_rph(b[gz])
        ctx.check(np.abs(Cb - C[gz]).max() <= 1e-6, 'gimbal_zone_rotation', lambda: f'{a[gz][0]} -> {b[gz][0]}')
        d[gz] = 0.0
    ctx.stat('roundtrip', (d / tol[:, None]).max())
    j = int(np.argmax((d / tol[:, None]).max(axis=1)))
    ctx.check(np.all(d <= tol[:, None]), 'euler_roundtrip',
              lambda: f'rph={a[j].tolist()} -> {b[j].tolist()} diff {d[j]} tol {tol[j]:.3e}')
    ctx.check(np.all(np.abs(b[:, 1]) <= 90) and np.all(np.abs(b[:, [0, 2]]) <= 180 + 1e-12), 'euler_range', lambda: f'{b[j]}')
    b0 = ctx.sut(transform.mat_to_rph, C[0])
    ctx.check(b0.shape == (3,) and (gz[0] or np.all(np.abs(_wrap(b0 - b[0])) <= tol[0])), 'form_single_mat_to_rph', '')
    # own extraction agrees with the library on the library matrix (second independent oracle)
    b2 = R.rph_from_dcm(C)
    ctx.check(np.all(np.abs(_wrap(b2 - b))[~gz] <= tol[~gz, None]), 'mat_to_rph_vs_reference',
              lambda: f'{b[j]} vs {b2[j]}')
    ctx.mark_nontrivial(all(case[k] % 360 != 0 for k in ('roll', 'heading')) and case['pitch'] != 0)


# ------------------------------------------------------------------------------ rotation vector
THR = 1e-3


def rotvec_strategy():
    def near_thr():
        return st.integers(-64, 64).map(lambda k: float(THR + k * np.spacing(THR)))
    return st.fixed_dictionaries({
        'norm': st.one_of(st.sampled_from([0.0, THR, float(np.pi), float(np.sqrt(1e-6)), 1e-12, 1.0]),
                          near_thr(), near_thr(),
                          st.floats(-12, float(np.log10(np.pi))).map(lambda e: float(min(10.0 ** e, np.pi))),
                          st.floats(-5, -1).map(lambda e: float(10.0 ** e)),
                          st.floats(-10, -0.5).map(lambda e: float(np.pi - 10.0 ** e))),      # approaching pi from below
        'dir': st.one_of(st.sampled_from([[1.0, 0.0, 0.0], [0.0, 1.0, 0.0], [0.0, 0.0, 1.0], [1.0, 1.0, 1.0], [1.0, -1.0, 0.0]]),
                         st.lists(st.floats(-1, 1), min_size=3, max_size=3)),
    })


def _rv(case):
    d = np.asarray(case['dir'], float)
    n = np.linalg.norm(d)
    if n < 1e-6:
        d = np.array([0.6, -0.48, 0.64])
        n = 1.0
    return d / n * case['norm']


def run_rotvec(case, ctx):
    from pyins import _numba_integrate as ni
    rv = _rv(case)
    nrm = float(np.linalg.norm(rv))
    n2 = float(np.sum(rv ** 2))
    ctx.label('branch=' + ('series' if not n2 > 1e-6 else 'trig'),
              'norm=' + ('0' if nrm == 0 else '<1e-5' if nrm < 1e-5 else 'near_thr' if 1e-5 <= nrm <= 0.1 else '<1' if nrm < 1 else 'near_pi' if nrm > np.pi - 0.01 else '>=1'))
    M = np.full((3, 3), np.nan)
    ctx.sut(ni.mat_from_rotvec, rv, M)
    ctx.check(np.all(np.isfinite(M)), 'not_finite', str(M))
    ref = R.exp_so3(rv)
    e = np.abs(np.asarray(M - ref, float)).max()
    ctx.stat('expmap', e / (8 * EPS))
    ctx.check(e <= 8 * EPS, 'exponential_map', lambda: f'rv={rv.tolist()} |M-exp|={e:.3e}\n{M}\n{np.asarray(ref, float)}')
    # continuity across the branch: same direction, norms straddling the threshold by 1 ulp steps
    if 1e-5 <= nrm <= 0.1:
        d = rv / nrm
        lo = THR
        while np.sum((d * lo) ** 2) > 1e-6:
            lo = np.nextafter(lo, 0)
        hi = lo
        while not np.sum((d * hi) ** 2) > 1e-6:
            hi = np.nextafter(hi, 1)
        A = np.empty((3, 3))
        B = np.empty((3, 3))
        ni.mat_from_rotvec(d * lo, A)
        ni.mat_from_rotvec(d * hi, B)
        jump = np.abs(A - B).max()
        ctx.stat('branch_jump', jump / (4 * EPS))
        ctx.check(jump <= 4 * EPS, 'branch_discontinuity', lambda: f'dir={d.tolist()} jump={jump:.3e}')
        ctx.label('threshold_straddled')
    ctx.mark_nontrivial((1e-5 <= nrm <= 0.1 or nrm >= 1.0) and np.count_nonzero(rv) >= 2)


def run_euler_jacobian(case, ctx):
    """Attitude block of transform_to_output == d(rph)/d(phi) of mat_to_rph(exp(-phi x) C)."""
    from pyins import error_model, transform
    a = np.array([case['roll'], case['pitch'], case['heading']])
    if abs(a[1]) > 89.0:
        a[1] = np.sign(a[1]) * 89.0
    a[0] = _wrap(a[0])
    a[2] = _wrap(a[2])
    ctx.label('pitch=' + ('<60' if abs(a[1]) < 60 else '<85' if abs(a[1]) < 85 else '<=89'))
    pva = pd.Series({'lat': 10.0, 'lon': 20.0, 'alt': 0.0, 'VN': 3.0, 'VE': -4.0, 'VD': 1.0,
                     'roll': a[0], 'pitch': a[1], 'heading': a[2]})
    T = ctx.sut(error_model.InsErrorModel().transform_to_output, pva)
    blk = T[6:9, 6:9]
    C = np.asarray(R.dcm_from_rph(a, np.longdouble), np.longdouble)
    cp = np.cos(np.radians(a[1]))
    prev = None
    for h in (1e-4, 5e-5):
        J = np.empty((3, 3))
        for k in range(3):
            ph = np.zeros(3, np.longdouble)
            ph[k] = h
            plus = R.rph_from_dcm(np.asarray(R.exp_so3(-ph) @ C, float))
            minus = R.rph_from_dcm(np.asarray(R.exp_so3(ph) @ C, float))
            J[:, k] = _wrap(plus - minus) / (2 * h)
        err = np.abs(blk - J).max()
        tol = (h ** 2 / cp ** 3 * 2 + 1e-9 / (h * cp)) * np.degrees(1) * 3 + 1e-9
        ctx.stat(f'jac_h{h:g}', err / tol)
        ctx.check(err <= tol, 'euler_error_jacobian',
                  lambda: f'rph={a.tolist()} h={h} |T-J|={err:.3e} tol={tol:.3e}\n{blk}\n{J}')
    # the same matrix through the stacked (DataFrame) form
    df = pd.DataFrame([pva, pva])
    Ts = ctx.sut(error_model.InsErrorModel().transform_to_output, df)
    ctx.check(Ts.shape == (2, 9, 9) and np.array_equal(Ts[0], T) and np.array_equal(Ts[1], T), 'form_stacked_transform', '')
    ctx.mark_nontrivial(all(abs(v) > 1.0 for v in a))


CLAUSES = [
    Clause('euler', euler_strategy, run_euler, quick=(1200, 4), thorough=(60000, 16)),
    Clause('rotvec', rotvec_strategy, run_rotvec, quick=(4000, 4), thorough=(200000, 16)),
    Clause('euler_jacobian', euler_strategy, run_euler_jacobian, quick=(400, 4), thorough=(20000, 16)),
]


def selftest():
    R.selftest()
