"""C14 - sensor error simulation and estimation models are exact mutual inverses.

Algebraic inverse / identity relations between inertial_sensor.Parameters (simulator) and
inertial_sensor.EstimationModel (estimator), layout consistency over the enable-mask space, and a
deterministic statistical check of the simulated noise / bias-walk variances.
"""
import itertools

import numpy as np
import pandas as pd
from hypothesis import strategies as st

from ..core import Clause
from ..tol import EPS

PROPERTY = 'C14'
RULE = ('Cases: an enable mask (per axis bias in {off, bias, bias+walk}; per axis noise on/off; 9 scale/misalignment '
        'entries on/off: 27*8*512 = 110592 valid masks) drawn by Hypothesis, parameter values (T = I + <=0.2, biases, '
        'positive sigmas) and 3..40 irregular time stamps expanded from an integer sub-seed, sensor type, parameter '
        'forms (scalar / list / array). Clause layout_blocks enumerates, per case, ALL 512 scale/misalignment masks of '
        'one (bias, noise) block (216 blocks; the evidence reports which blocks were covered). Oracles: simulate then '
        'correct returns the input (64 ulp cond(T)); output_matrix(x) @ state-by-name == simulated error; update '
        'additivity; shape/name/covariance/noise layout predicates; invalid masks raise ValueError; sample mean/variance '
        'of 10000 normalised residuals within +-0.1 / [0.8, 1.25]. Non-trivial = mask with >=1 off-diagonal '
        'scale/misalignment entry and >=1 bias; distinct by SHA-1 of the case.')
ASSUMPTIONS = ['variance clause uses RandomState(seed): deterministic; thresholds are >9 sigma of the sampling distribution',
               'rate-type inverse uses dt = 1 in correct_increments (bias is a rate there)']

XYZ = 'xyz'


def mask_strategy():
    return st.fixed_dictionaries({
        'bias': st.lists(st.integers(0, 2), min_size=3, max_size=3),     # 0 off, 1 bias, 2 bias+walk
        'noise': st.lists(st.booleans(), min_size=3, max_size=3),
        'sm': st.lists(st.booleans(), min_size=9, max_size=9),
        'sensor_type': st.sampled_from(['rate', 'increment']),
        'form': st.sampled_from(['array', 'list', 'scalar']),
        'n': st.integers(3, 40),
        'sub': st.integers(0, 2 ** 31 - 1),
    })


def make_model(case, rng, walk=True, noise=True, off=0.0):
    """EstimationModel + matching simulator parameter values for the mask."""
    from pyins import inertial_sensor as isn
    bias_on = np.array([b > 0 for b in case['bias']])
    walk_on = np.array([b > 1 for b in case['bias']])
    noise_on = np.array(case['noise'])
    sm_on = np.array(case['sm']).reshape(3, 3)
    form = case['form']
    bias_sd = np.where(bias_on, 10 ** rng.uniform(-4, -1, 3), 0.0)
    walk_sd = np.where(walk_on, 10 ** rng.uniform(-5, -2, 3), 0.0)
    noise_sd = np.where(noise_on, 10 ** rng.uniform(-4, -1, 3), 0.0)
    sm_sd = np.where(sm_on, 10 ** rng.uniform(-4, -2, (3, 3)), 0.0)
    if form == 'scalar':        # scalar form means "same for all axes": only usable for uniform masks
        if bias_on.all():
            bias_sd = np.full(3, bias_sd[0])
        if walk_on.all():
            walk_sd = np.full(3, walk_sd[0])
        if noise_on.all():
            noise_sd = np.full(3, noise_sd[0])
        if sm_on.all():
            sm_sd = np.full((3, 3), sm_sd[0, 0])

    def arg(v, on):
        if not on.any():
            return None
        if form == 'scalar' and on.all():
            return float(v.flat[0])
        if off:                 # "a non-positive element disables the effect for the corresponding axis": switched-off entries
            v = np.where(on, v, off)      # written as a negative number instead of zero
        if form == 'list':
            return v.tolist()
        return v.copy()
    model = isn.EstimationModel(bias_sd=arg(bias_sd, bias_on), noise=arg(noise_sd, noise_on) if noise else None,
                                bias_walk=arg(walk_sd, walk_on) if walk else None,
                                scale_misal_sd=arg(sm_sd, sm_on))
    return model, bias_on, walk_on, noise_on, sm_on, bias_sd, walk_sd, noise_sd, sm_sd


def expected_states(bias_on, sm_on):
    names = [f'bias_{XYZ[a]}' for a in range(3) if bias_on[a]]
    names += [f'sm_{XYZ[o]}{XYZ[i]}' for o in range(3) for i in range(3) if sm_on[o, i]]
    return names


def check_layout(ctx, model, bias_on, walk_on, noise_on, sm_on, bias_sd, walk_sd, noise_sd, sm_sd):
    names = expected_states(bias_on, sm_on)
    n = len(names)
    nq = int(walk_on.sum())
    nv = int(noise_on.sum())
    ctx.check(list(model.states) == names, 'state_names', lambda: f'{model.states} expected {names}')
    ctx.check(model.n_states == n and model.P.shape == (n, n) and model.F.shape == (n, n) and model.G.shape == (n, nq)
              and model.H.shape == (3, n) and model.n_noises == nq and len(model.q) == nq and model.J.shape == (3, nv)
              and model.n_output_noises == nv and len(model.v) == nv, 'dimensions',
              lambda: f'n={n} nq={nq} nv={nv}: P{model.P.shape} F{model.F.shape} G{model.G.shape} H{model.H.shape} '
                      f'q{len(model.q)} J{model.J.shape} v{len(model.v)} n_states={model.n_states}')
    var = [bias_sd[a] ** 2 for a in range(3) if bias_on[a]] + [sm_sd[o, i] ** 2 for o in range(3) for i in range(3) if sm_on[o, i]]
    ctx.check(np.array_equal(model.P, np.diag(var)) if n else model.P.size == 0, 'initial_covariance',
              lambda: f'diag P {np.diag(model.P)} expected {var}')
    ctx.check(np.all(model.F == 0), 'F_nonzero', '')
    ctx.check(np.array_equal(model.q, [walk_sd[a] for a in range(3) if walk_on[a]]), 'q_order', lambda: f'{model.q}')
    ctx.check(np.array_equal(model.v, [noise_sd[a] for a in range(3) if noise_on[a]]), 'v_order', lambda: f'{model.v}')
    # G: unit entry from the k-th walk noise into that axis' bias state
    G = np.zeros((n, nq))
    k = 0
    for a in range(3):
        if walk_on[a]:
            G[names.index(f'bias_{XYZ[a]}'), k] = 1
            k += 1
    ctx.check(np.array_equal(model.G, G), 'G_layout', lambda: f'{model.G} expected {G}')
    J = np.zeros((3, nv))
    k = 0
    for a in range(3):
        if noise_on[a]:
            J[a, k] = 1
            k += 1
    ctx.check(np.array_equal(model.J, J), 'J_layout', lambda: f'{model.J} expected {J}')
    H = np.zeros((3, n))
    for a in range(3):
        if bias_on[a]:
            H[a, names.index(f'bias_{XYZ[a]}')] = 1
    ctx.check(np.array_equal(model.H, H), 'H_layout', lambda: f'{model.H} expected {H}')
    ctx.check(model.scale_misal_modelled == bool(sm_on.any()), 'scale_misal_flag', '')
    if sm_on.any():
        x = np.array([1.5, -2.5, 3.5])
        Hx = model.output_matrix(x)
        Hr = H.copy()
        for o in range(3):
            for i in range(3):
                if sm_on[o, i]:
                    Hr[o, names.index(f'sm_{XYZ[o]}{XYZ[i]}')] = x[i]
        ctx.check(np.array_equal(Hx, Hr), 'output_matrix_layout', lambda: f'{Hx} expected {Hr}')
        X = np.vstack([x, 2 * x])
        Hs = model.output_matrix(X)
        ctx.check(Hs.shape == (2, 3, n) and np.array_equal(Hs[0], Hr) and np.array_equal(Hs[1] - H, 2 * (Hr - H)), 'output_matrix_stacked', '')
    else:
        ctx.check(np.array_equal(model.output_matrix(), H) and np.array_equal(model.output_matrix(np.ones(3)), H), 'output_matrix_plain', '')


def times_for(case, rng):
    n = case['n']
    dt = 10 ** rng.uniform(-2.3, -0.5, n)
    return float(rng.choice([0.0, 100.0, -7.0])) + np.concatenate([[0.0], np.cumsum(dt)])[:n]


def run_algebra(case, ctx):
    from pyins import inertial_sensor as isn
    rng = np.random.RandomState(case['sub'])
    (model, bias_on, walk_on, noise_on, sm_on, bias_sd, walk_sd, noise_sd, sm_sd) = ctx.sut(make_model, case, rng)
    ctx.label(f"type={case['sensor_type']}", f"form={case['form']}", f'n_bias={int(bias_on.sum())}', f'n_walk={int(walk_on.sum())}',
              f'n_sm={"0" if not sm_on.any() else "1-3" if sm_on.sum() <= 3 else "4-9"}', f'n_noise={int(noise_on.sum())}')
    check_layout(ctx, model, bias_on, walk_on, noise_on, sm_on, bias_sd, walk_sd, noise_sd, sm_sd)
    # the same mask with the switched-off axes given as negative numbers (documented: non-positive disables): same layout
    if case['sub'] % 2 == 0 and case['form'] != 'scalar':
        res_neg = ctx.sut(make_model, case, np.random.RandomState(case['sub']), True, True, -float(1 + case['sub'] % 3))
        check_layout(ctx, res_neg[0], *res_neg[1:])
        ctx.label('off_entries=negative')
    names = list(model.states)
    # simulator parameters: exactly the enabled ones are non-zero
    T = np.eye(3) + np.where(sm_on, rng.uniform(0.01, 0.2, (3, 3)) * rng.choice([-1, 1], (3, 3)), 0.0)
    b = np.where(bias_on, rng.uniform(0.01, 1.0, 3) * rng.choice([-1, 1], 3), 0.0)
    t = times_for(case, rng)
    x = rng.randn(len(t), 3) * 10 ** rng.uniform(-2, 1)
    cols = ['gyro_x', 'gyro_y', 'gyro_z'] if case['sub'] % 2 else ['accel_x', 'accel_y', 'accel_z']
    readings = pd.DataFrame(x, index=pd.Index(t, name='time'), columns=cols)
    snap = readings.copy()
    stype = case['sensor_type']
    par = isn.Parameters(T if case['form'] != 'list' else T.tolist(), b if case['form'] != 'list' else b.tolist())
    out = ctx.sut(par.apply, readings, stype)
    ctx.check(readings.equals(snap), 'input_modified:apply', '')
    ctx.check(list(out.columns) == cols and out.index.equals(readings.index), 'apply_schema', '')
    # apply_imu_parameters == the two triads applied separately (noise-free: deterministic), same schema as the input
    if case['sub'] % 4 == 0:
        imu6 = pd.DataFrame(np.hstack([x, 2 * x[:, ::-1]]), index=readings.index,
                            columns=['gyro_x', 'gyro_y', 'gyro_z', 'accel_x', 'accel_y', 'accel_z'])
        isnap = imu6.copy()
        both = ctx.sut(isn.apply_imu_parameters, imu6, stype, isn.Parameters(T, b), isn.Parameters(bias=-b))
        ctx.check(imu6.equals(isnap), 'input_modified:apply_imu_parameters', '')
        ctx.check(list(both.columns) == list(imu6.columns) and both.index.equals(imu6.index), 'apply_imu_schema', lambda: str(list(both.columns)))
        g_only = isn.Parameters(T, b).apply(imu6[['gyro_x', 'gyro_y', 'gyro_z']], stype)
        a_only = isn.Parameters(bias=-b).apply(imu6[['accel_x', 'accel_y', 'accel_z']], stype)
        ctx.check(np.array_equal(both.values[:, :3], g_only.values) and np.array_equal(both.values[:, 3:], a_only.values),
                  'apply_imu_parameters_differs_from_separate_triads', '')
        none = ctx.sut(isn.apply_imu_parameters, imu6, stype)
        ctx.check(np.array_equal(none.values, imu6.values), 'default_parameters_not_identity', '')
        ctx.label('apply_imu_parameters_checked')
    # data_frame columns == model states (exactly the enabled parameters are non-zero)
    df = par.data_frame
    ctx.check(list(df.columns) == names, 'parameter_table_names', lambda: f'{list(df.columns)} vs states {names}')
    ctx.check(df.index.equals(readings.index), 'parameter_table_index', '')
    dt = np.hstack([0, np.diff(t)])
    dt[0] = dt[1]
    condT = np.linalg.cond(T)
    scale = np.abs(x).max() + np.abs(b).max() * max(dt.max(), 1.0)
    tol = 64 * EPS * condT * scale
    # (i) inverse
    model.reset_estimates()
    est = df.iloc[0].values if len(names) else np.zeros(0)
    ctx.sut(model.update_estimates, est)
    if stype == 'increment':
        back = ctx.sut(model.correct_increments, pd.Series(dt, index=readings.index), out)
    else:
        back = ctx.sut(model.correct_increments, pd.Series(np.ones(len(t)), index=readings.index), out)
    e = np.abs(back.values - x).max()
    ctx.stat('inverse', e / tol)
    ctx.check(e <= tol, 'not_inverse', lambda: f'correct(apply(x)) - x = {e:.3e} tol {tol:.3e} type {stype}\nT={T}\nb={b}')
    ctx.check(list(back.columns) == cols and back.index.equals(readings.index), 'correct_schema', '')
    # Series form agrees with the DataFrame form
    r0 = ctx.sut(model.correct_increments, float(dt[1] if stype == 'increment' else 1.0), out.iloc[1])
    ctx.check(isinstance(r0, pd.Series) and np.abs(r0.values - back.iloc[1].values).max() <= 8 * EPS * scale * condT, 'series_form',
              lambda: f'{r0.values} vs {back.iloc[1].values}')
    # (ii) output matrix times state-by-name == simulated reading error (rate units)
    if stype == 'rate':
        Hs = ctx.sut(model.output_matrix, x)
        if not sm_on.any():
            Hs = np.broadcast_to(Hs, (len(t),) + Hs.shape)
        pred = np.einsum('nij,nj->ni', Hs, df[names].values) if len(names) else np.zeros_like(x)
        e2 = np.abs(pred - (out.values - x)).max()
        ctx.stat('output_matrix', e2 / (64 * EPS * scale * 4))
        ctx.check(e2 <= 64 * EPS * scale * 4, 'output_matrix_vs_simulated_error',
                  lambda: f'|H(x) state - (applied - x)| = {e2:.3e}; states {names}\nT={T}\nb={b}')
    # (iii) estimates: additivity, readback, reset
    a1 = rng.randn(len(names)) * 0.01
    a2 = rng.randn(len(names)) * 0.01
    model.reset_estimates()
    ctx.check(np.array_equal(model.get_estimates().values, np.zeros(len(names))), 'reset_not_zero', '')
    model.update_estimates(a1)
    model.update_estimates(a2)
    g12 = model.get_estimates()
    ctx.check(list(g12.index) == names, 'estimate_names', '')
    model.reset_estimates()
    model.update_estimates(a1 + a2)
    g = model.get_estimates()
    ctx.check(np.abs(g12.values - g.values).max() <= 4 * EPS if len(names) else True, 'update_not_additive', lambda: f'{g12.values} vs {g.values}')
    ctx.check(np.abs(g.values - (a1 + a2)).max() <= 4 * EPS if len(names) else True, 'estimates_readback', lambda: f'{g.values} vs {a1 + a2}')
    if len(names):
        try:
            model.update_estimates(np.zeros(len(names) + 1))
            ctx.check(False, 'wrong_length_accepted', '')
        except ValueError:
            pass
    model.reset_estimates()
    ctx.check(np.array_equal(model.transform, np.eye(3)) and np.array_equal(model.bias, np.zeros(3)), 'reset_incomplete', '')
    # after a reset that FOLLOWS non-zero updates the correction must be the identity again (nothing cached survives the reset)
    ident = ctx.sut(model.correct_increments, pd.Series(dt, index=readings.index), out)
    ctx.check(np.array_equal(ident.values, out.values), 'correction_not_identity_after_reset',
              lambda: f'max deviation {np.abs(ident.values - out.values).max():.3e} after update -> reset')
    ctx.check(np.all(model.get_estimates().values == 0.0), 'estimates_not_zero_after_reset', '')
    # a walking bias whose constant part is exactly zero is still a bias the estimator has to name
    if walk_on.any():
        wpar = isn.Parameters(bias_walk=walk_sd, rng=int(case['sub'] % 1000))
        wout = ctx.sut(wpar.apply, readings, stype)
        wnames = [f'bias_{XYZ[a]}' for a in range(3) if walk_on[a]]
        ctx.check(list(wpar.data_frame.columns) == wnames, 'walk_only_bias_missing_from_parameter_table',
                  lambda: f'{list(wpar.data_frame.columns)} expected {wnames}')
        k = dt[:, None] if stype == 'increment' else 1.0
        werr = wout.values - x
        wexp = np.zeros_like(x)
        for j, a in enumerate([a for a in range(3) if walk_on[a]]):
            wexp[:, a] = wpar.data_frame[wnames[j]].values
        ctx.check(np.abs(werr - wexp * k).max() <= 64 * EPS * (1 + np.abs(x).max() + np.abs(wexp).max()), 'walk_table_differs_from_simulated_bias',
                  lambda: f'{np.abs(werr - wexp * k).max():.3e}')
        ctx.label('walk_only_checked')
    offdiag = sm_on.copy()
    offdiag[np.diag_indices(3)] = False
    ctx.mark_nontrivial(offdiag.any() and bias_on.any())


def run_invalid(case, ctx):
    """Walk without bias must be rejected; wrong shapes too."""
    from pyins import inertial_sensor as isn
    rng = np.random.RandomState(case['sub'])
    bias_on = np.array([b > 0 for b in case['bias']])
    walk = np.where(rng.rand(3) < 0.6, 1e-3, 0.0)
    bias = np.where(bias_on, 1e-2, 0.0)
    bad = np.any(walk[~bias_on] > 0)
    ctx.label('invalid' if bad else 'valid')
    try:
        isn.EstimationModel(bias_sd=bias, bias_walk=walk)
        ok = True
    except ValueError:
        ok = False
    ctx.check(ok != bad, 'walk_without_bias', lambda: f'bias {bias} walk {walk}: accepted={ok}')
    for kw in ({'bias_sd': [1.0, 2.0]}, {'noise': np.ones((3, 3))}, {'scale_misal_sd': np.ones(3)}):
        try:
            isn.EstimationModel(**kw)
            ctx.check(False, 'bad_shape_accepted', str(kw))
        except ValueError:
            pass
    ctx.mark_nontrivial(bad)


def block_strategy():
    return st.fixed_dictionaries({'block': st.integers(0, 215)})


def run_layout_block(case, ctx):
    """All 512 scale/misalignment masks of one (bias, noise) block."""
    blk = case['block']
    bias = list(np.unravel_index(blk // 8, (3, 3, 3)))
    noise = [bool((blk % 8) >> k & 1) for k in range(3)]
    ctx.label(f'block={blk}')
    rng = np.random.RandomState(blk)
    for sm in itertools.product([False, True], repeat=9):
        c = {'bias': [int(b) for b in bias], 'noise': noise, 'sm': list(sm), 'form': 'array', 'sub': blk, 'n': 3,
             'sensor_type': 'rate'}
        res = ctx.sut(make_model, c, rng)
        check_layout(ctx, *res)
    ctx.mark_nontrivial(any(b > 0 for b in bias))


def var_strategy():
    return st.fixed_dictionaries({
        'sensor_type': st.sampled_from(['rate', 'increment']),
        'seed': st.integers(0, 2 ** 31 - 1),
        'noise': st.lists(st.floats(1e-4, 1.0), min_size=3, max_size=3),
        'walk': st.lists(st.floats(1e-4, 1.0), min_size=3, max_size=3),
        'dt_exp': st.floats(-3, 0),
    })


def run_variance(case, ctx):
    """Simulated white noise and bias walk have the densities the estimator assumes (v^2, q^2)."""
    from pyins import inertial_sensor as isn
    n = 10000
    rng = np.random.RandomState(case['seed'])
    dt = 10 ** (case['dt_exp'] + rng.uniform(-0.5, 0.5, n))
    t = np.concatenate([[0.0], np.cumsum(dt)])[:n]
    x = rng.randn(n, 3)
    noise = np.array(case['noise'])
    walk = np.array(case['walk'])
    b0 = np.array([0.3, -0.2, 0.1])
    par = isn.Parameters(bias=b0, noise=noise, bias_walk=walk, rng=case['seed'])
    readings = pd.DataFrame(x, index=t, columns=['gyro_x', 'gyro_y', 'gyro_z'])
    out = ctx.sut(par.apply, readings, case['sensor_type'])
    df = par.data_frame
    bias = df[['bias_x', 'bias_y', 'bias_z']].values
    d = np.hstack([0, np.diff(t)])
    d[0] = d[1]
    ctx.label(f"type={case['sensor_type']}")
    # bias walk: increments of the reported bias, normalised by walk * sqrt(dt_k)
    db = np.diff(bias, axis=0) / (walk * np.sqrt(np.diff(t))[:, None])
    if case['sensor_type'] == 'rate':
        r = (out.values - x - bias) / (noise * d[:, None] ** -0.5)
    else:
        r = (out.values - x - bias * d[:, None]) / (noise * d[:, None] ** 0.5)
    for nm, arr in (('walk', db), ('noise', r)):
        m = arr.mean(axis=0)
        v = arr.var(axis=0)
        ctx.stat(f'{nm}_mean', np.abs(m).max() / 0.1)
        ctx.stat(f'{nm}_var', max(v.max() / 1.25, 0.8 / v.min()))
        ctx.check(np.all(np.abs(m) <= 0.1), f'{nm}_mean', lambda: f'normalised {nm} mean {m}')
        ctx.check(np.all(v >= 0.8) and np.all(v <= 1.25), f'{nm}_variance',
                  lambda: f'normalised {nm} variance {v} (must be 1: simulator and estimator disagree on the density; dt ~ {np.median(d):.3g})')
    ctx.check(np.abs(bias[0] - b0).max() <= 1e-12, 'initial_bias', lambda: f'{bias[0]} vs {b0}')
    # determinism for equal integer seeds
    par2 = isn.Parameters(bias=b0, noise=noise, bias_walk=walk, rng=case['seed'])
    out2 = par2.apply(readings, case['sensor_type'])
    ctx.check(out2.equals(out), 'seed_not_deterministic', '')
    ctx.mark_nontrivial(abs(case['dt_exp']) > 0.3)


def run_from_model(case, ctx):
    """Parameters.from_EstimationModel: the simulator's parameters are drawn for exactly the model's enabled terms, element by
    element (NOT transposed), and the parameter table it produces is named like the model's states."""
    from pyins import inertial_sensor as isn
    rng = np.random.RandomState(case['sub'])
    (model, bias_on, walk_on, noise_on, sm_on, bias_sd, walk_sd, noise_sd, sm_sd) = ctx.sut(make_model, case, rng)
    seed = int(case['sub'] % 100000)
    msnap = [np.array(getattr(model, k), copy=True) for k in ('P', 'q', 'v', 'scale_misal_sd', 'bias_sd')]
    par = ctx.sut(isn.Parameters.from_EstimationModel, model, seed)
    for k, b in zip(('P', 'q', 'v', 'scale_misal_sd', 'bias_sd'), msnap):
        ctx.check(np.array_equal(getattr(model, k), b), 'model_modified', k)
    dT = par.transform - np.eye(3)
    ctx.check(np.all(dT[~sm_on] == 0.0) and np.all(par.bias[~bias_on] == 0.0), 'disabled_parameter_simulated',
              lambda: f'transform-I {dT} mask {sm_on}; bias {par.bias} mask {bias_on}')
    ctx.check(np.all(dT[sm_on] != 0.0) and np.all(par.bias[bias_on] != 0.0), 'enabled_parameter_not_simulated',
              lambda: f'transform-I {dT} mask {sm_on}; bias {par.bias} mask {bias_on}')
    # each element is N(0, its own sd): |value| <= 7 sd (probability of a false alarm 3e-12 per element)
    zs = np.abs(dT[sm_on] / sm_sd[sm_on])
    zb = np.abs(par.bias[bias_on] / bias_sd[bias_on])
    ctx.check(np.all(zs <= 7) and np.all(zb <= 7), 'parameter_not_scaled_by_its_own_sd', lambda: f'normalised draws {zs} {zb}')
    ctx.check(np.array_equal(par.noise, noise_sd) and np.array_equal(par.bias_walk, walk_sd), 'noise_parameters_differ', lambda: f'{par.noise} {par.bias_walk}')
    # same integer seed -> same parameters
    par2 = isn.Parameters.from_EstimationModel(model, seed)
    ctx.check(np.array_equal(par2.transform, par.transform) and np.array_equal(par2.bias, par.bias), 'seed_not_deterministic', '')
    # the parameter table after apply() carries exactly the model's state names, in the model's order
    t = times_for(case, rng)
    readings = pd.DataFrame(rng.randn(len(t), 3), index=t, columns=['gyro_x', 'gyro_y', 'gyro_z'])
    out = ctx.sut(par.apply, readings, case['sensor_type'])
    names = list(model.states)
    ctx.check(list(par.data_frame.columns) == names, 'parameter_table_names', lambda: f'{list(par.data_frame.columns)} vs states {names}')
    # and the model can represent the simulated systematic error exactly: H(x) state == (T - I) x + b  (noise-free part)
    if case['sensor_type'] == 'rate' and not noise_on.any() and not walk_on.any():
        Hs = model.output_matrix(readings.values)
        if not sm_on.any():
            Hs = np.broadcast_to(Hs, (len(t),) + Hs.shape)
        pred = np.einsum('nij,nj->ni', Hs, par.data_frame[names].values) if names else np.zeros((len(t), 3))
        e2 = np.abs(pred - (out.values - readings.values)).max()
        ctx.check(e2 <= 256 * EPS * (1 + np.abs(readings.values).max()), 'model_cannot_represent_simulated_error', lambda: f'{e2:.3e}')
    asym = bool(np.any(sm_on != sm_on.T))
    ctx.label('asymmetric_sm_mask' if asym else 'symmetric_sm_mask')
    ctx.mark_nontrivial(asym and bias_on.any())


CLAUSES = [
    Clause('from_model', mask_strategy, run_from_model, quick=(400, 4), thorough=(12000, 16)),
    Clause('algebra', mask_strategy, run_algebra, quick=(1600, 8), thorough=(60000, 16)),
    Clause('invalid', mask_strategy, run_invalid, quick=(100, 1), thorough=(2000, 2)),
    Clause('layout_blocks', block_strategy, run_layout_block, quick=(16, 8), thorough=(2500, 16)),
    Clause('variance', var_strategy, run_variance, quick=(40, 4), thorough=(1600, 16)),
]


def evidence_extra(tier, per_clause):
    c = per_clause.get('layout_blocks')
    if not c:
        return {}
    blocks = {k for k in c['labels'] if k.startswith('block=')}
    return {'mask_blocks_covered': len(blocks), 'mask_blocks_total': 216,
            'masks_enumerated_completely': len(blocks) == 216,
            'masks_checked_in_layout_blocks': len(blocks) * 512}
