"""C06 - measurement models: residual sign/units right and H is the Jacobian of z.

Oracles: residual recomputed from own geodesy / own DCM; H against central differences of z
under the library's own correction convention (correct_pva); R; None at absent times;
simulator round trip with an injected error.
"""
import numpy as np
import pandas as pd
from hypothesis import strategies as st

from ..core import Clause
from .. import gen, errcoords as EC
from ..ref import rot as ROT
from ..tol import EPS

PROPERTY = 'C06'
RULE = ('Cases: PVA (|lat|<=85, |pitch|<=85, speed 0..300) with or without body rates (<=1 rad/s), lever arm in '
        '{None, zero, random <=5 m}, measured value = truth (+) injected error or an arbitrary nearby value, class in '
        '{Position, NedVelocity, BodyVelocity}, altitude mode, multi-row data frames with extra columns, query time '
        'present / absent / between rows. Oracles: z from own geodesy and own DCM; H vs central differences of z along '
        'every error state under correct_pva; R = sd^2 I with matching dimensions; None at absent times; simulator '
        'round trip (noise-free -> 0, injected e -> -e). Non-trivial = non-zero lever arm with rates present and '
        'attitude off-axis (for BodyVelocity: attitude off-axis and speed > 1).')
ASSUMPTIONS = ['central-difference steps 10 m / 0.1 m/s / 1e-4 rad, tolerance 2e-5 (1+|V|+|l|(1+|w|)) per entry',
               'rates are not part of the error state: they are carried unchanged through the perturbation']

RATE = ['rate_x', 'rate_y', 'rate_z']


def case_strategy():
    return st.fixed_dictionaries({
        'pva': gen.pva_strategy(max_lat=85.0, max_pitch=85.0),
        'cls': st.sampled_from(['Position', 'NedVelocity', 'BodyVelocity']),
        'lever': st.sampled_from(['none', 'zero', 'arm', 'arm', 'arm_int', 'arm_list']),       # array_like: also whole-number arms as an integer array or a list of ints
        'rates': st.sampled_from([True, True, False]),
        'with_altitude': st.booleans(),
        'meas_err': st.lists(st.floats(-1, 1), min_size=3, max_size=3),
        'sub': st.integers(0, 2 ** 31 - 1),
    })


def build(case):
    from pyins import measurements, transform
    rng = np.random.RandomState(case['sub'])
    t = 12.5
    pva = gen.to_pva(case['pva'], t)
    # 2D mode: the integrator keeps VD at zero; a third of the BodyVelocity cases hand over a state whose VD is not zero all the
    # same (a 3D solution evaluated with the 2D error model): the predicted body velocity is C_nb^T v of the state AS GIVEN
    if not case['with_altitude'] and not (case['cls'] == 'BodyVelocity' and case['sub'] % 3 == 0):
        pva['VD'] = 0.0
    rates = rng.uniform(-1, 1, 3) if case['rates'] else None
    arm = {'none': None, 'zero': np.zeros(3), 'arm': rng.uniform(-5, 5, 3), 'arm_int': rng.uniform(-5, 5, 3), 'arm_list': rng.uniform(-5, 5, 3)}[case['lever']]
    arm_arg = arm
    if case['lever'] in ('arm_int', 'arm_list'):
        arm = np.rint(arm) + 0.0
        if not arm.any():
            arm[0] = 2.0
        arm_arg = arm.astype(np.int64) if case['lever'] == 'arm_int' else [int(v) for v in arm]
    sd = float(10 ** rng.uniform(-2, 1))
    e = np.asarray(case['meas_err'], float)
    C = np.asarray(ROT.dcm_from_rph(pva[EC.RPH].values.astype(float)), float)
    times = [t - 1.0, t, t + 0.7]
    if case['cls'] == 'Position':
        e = e * 20.0
        lla_true = pva[EC.LLA].values.astype(float)
        meas = transform.perturb_lla(lla_true, e)            # measured point = truth displaced by e (metres)
        rows = [transform.perturb_lla(lla_true, rng.randn(3) * 50), meas, transform.perturb_lla(lla_true, rng.randn(3) * 50)]
        data = pd.DataFrame(rows, index=times, columns=['lat', 'lon', 'alt'])
        data['extra'] = 1.0
        m = measurements.Position(data, sd, arm_arg)
    elif case['cls'] == 'NedVelocity':
        e = e * 2.0
        meas = pva[EC.VEL].values.astype(float) + e
        data = pd.DataFrame([meas + rng.randn(3), meas, meas + rng.randn(3)], index=times, columns=['VN', 'VE', 'VD'])
        data.insert(0, 'junk', 5.0)
        m = measurements.NedVelocity(data, sd, arm_arg)
    else:
        e = e * 2.0
        meas = C.T @ pva[EC.VEL].values.astype(float) + e
        data = pd.DataFrame([meas + rng.randn(3), meas, meas + rng.randn(3)], index=times, columns=['VX', 'VY', 'VZ'])
        m = measurements.BodyVelocity(data, sd)
        arm = None
    full = pva if rates is None else pd.concat([pva, pd.Series(rates, index=RATE)])
    return t, pva, full, rates, arm, sd, e, meas, C, m, times


def expected_z(case, pva, rates, arm, meas, C):
    V = pva[EC.VEL].values.astype(float)
    if case['cls'] == 'Position':
        z = EC.metres(pva[EC.LLA].values.astype(float), meas)
        if arm is not None:
            z = z + C @ arm
    elif case['cls'] == 'NedVelocity':
        z = V - meas
        if arm is not None and rates is not None:
            z = z + C @ np.cross(rates, arm)
    else:
        z = C.T @ V - meas
    if not case['with_altitude'] and case['cls'] != 'BodyVelocity':
        z = z[:2]
    return z


def run_model(case, ctx):
    from pyins import error_model
    t, pva, full, rates, arm, sd, e, meas, C, m, times = build(case)
    wa = case['with_altitude']
    em = error_model.InsErrorModel(wa)
    n = 9 if wa else 7
    ctx.label(case['cls'], f"lever={case['lever']}", 'rates' if case['rates'] else 'no_rates', 'mode=3D' if wa else 'mode=2D')
    # (i) absent time -> None
    for ta in (t + 0.3, t - 5.0, np.nextafter(t, np.inf), t + 5.0, t - 1.5):       # between samples, before the first, after the last
        ctx.check(ctx.sut(m.compute_matrices, ta, full, em) is None, 'not_none_at_absent_time', f'time {ta}')
    snap = full.copy()
    dsnap = m.data.copy()
    ret = ctx.sut(m.compute_matrices, t, full, em)
    ctx.check(ret is not None, 'none_at_present_time', '')
    ctx.check(full.equals(snap) and m.data.equals(dsnap), 'input_modified', '')
    z, H, R = ret
    z = np.asarray(z, float)
    k = 3 if (wa or case['cls'] == 'BodyVelocity') else 2
    ctx.check(z.shape == (k,) and np.shape(H) == (k, n) and np.shape(R) == (k, k), 'shapes',
              lambda: f'z {z.shape} H {np.shape(H)} R {np.shape(R)} expected k={k} n={n}')
    ctx.check(np.array_equal(R, sd ** 2 * np.eye(k)), 'R', lambda: f'{R} vs sd^2={sd ** 2}')
    # (ii) residual: INS-predicted minus measured, documented units
    zr = expected_z(case, pva, rates, arm, meas, C)
    V = np.linalg.norm(pva[EC.VEL].values.astype(float))
    larm = 0.0 if arm is None else np.linalg.norm(arm)
    if case['cls'] == 'Position':
        tolz = 1e-7 + 4 * np.linalg.norm(e) ** 2 * (1 + abs(np.tan(np.radians(pva.lat)))) / 6.4e6 * 0.01 + 64 * EPS * larm
    else:
        tolz = 64 * EPS * (1 + V + larm + np.abs(meas).max())
    ez = np.abs(z - zr).max()
    ctx.stat('residual', ez / tolz)
    ctx.check(ez <= tolz, 'residual_value', lambda: f'z={z.tolist()} expected {zr.tolist()} (|diff| {ez:.3e} tol {tolz:.3e})')
    # injected error: z = -e (plus lever/rate terms that are part of the prediction)
    # (iii) H == dz/dx by central differences under correct_pva
    steps = np.array([10.0, 10.0, 10.0, 0.1, 0.1, 0.1, 1e-4, 1e-4, 1e-4]) if wa else \
        np.array([10.0, 10.0, 0.1, 0.1, 1e-4, 1e-4, 1e-4])
    wn = 0.0 if rates is None else np.linalg.norm(rates)
    scale = 1 + V + larm * (1 + wn)
    H = np.asarray(H, float)
    worst = 0.0
    # a Position residual of size |z| couples into the other axis through the convergence of
    # meridians, d z_E / d north = -tan(lat) z_E / R: second order, not part of the linear model
    curv = 2 * (np.linalg.norm(e) + larm) * (1 + abs(np.tan(np.radians(pva.lat)))) / 6.3e6 if case['cls'] == 'Position' else 0.0
    for frac in (1.0, 0.5):
        J = np.empty((k, n))
        for i in range(n):
            x = np.zeros(n)
            x[i] = steps[i] * frac
            qp = em.correct_pva(pva, -x)
            qm = em.correct_pva(pva, x)
            if rates is not None:
                qp = pd.concat([qp, pd.Series(rates, index=RATE)])
                qm = pd.concat([qm, pd.Series(rates, index=RATE)])
            zp = np.asarray(m.compute_matrices(t, qp, em)[0], float)
            zm = np.asarray(m.compute_matrices(t, qm, em)[0], float)
            J[:, i] = (zp - zm) / (2 * x[i])
        err = np.abs(H - J).max()
        tolH = 2e-5 * scale * frac ** 2 + 1e-7 * scale + curv
        worst = max(worst, err / tolH)
        ctx.check(err <= tolH, 'H_not_jacobian',
                  lambda: f'|H - dz/dx| = {err:.3e} tol {tolH:.3e} (step x{frac})\nH=\n{H}\nJ=\n{J}\nlever={arm} rates={rates}')
    ctx.stat('jacobian', worst)
    offaxis = abs(pva.roll) > 5 and abs(pva.pitch) > 5
    if case['cls'] == 'BodyVelocity':
        ctx.mark_nontrivial(offaxis and V > 1)
    else:
        ctx.mark_nontrivial(offaxis and arm is not None and larm > 0.5 and rates is not None)


class _FixedNormal(np.random.RandomState):
    """RandomState whose randn returns a prescribed array: injects a chosen 'random' error."""

    def __init__(self, value):
        super().__init__(0)
        self._value = np.asarray(value, float)

    def randn(self, *shape):
        assert tuple(shape) == self._value.shape, (shape, self._value.shape)
        return self._value.copy()


def run_simulator(case, ctx):
    """generate_*_measurements at the true state: noise-free -> z = 0, injected e -> z = -e."""
    from pyins import sim, measurements, error_model, transform
    t, pva, full, rates, arm, sd, e, meas, C, m, times = build(case)
    wa = case['with_altitude']
    em = error_model.InsErrorModel(wa)
    ctx.label(case['cls'], f"lever={case['lever']}", 'mode=3D' if wa else 'mode=2D')
    traj = pd.DataFrame([full.values, full.values], index=[t, t + 1.0], columns=full.index)
    # the documented input is a table with *named* columns: other column orders and extra columns in front are the same input
    lay = case['sub'] % 4
    if lay == 1:
        front = [c for c in traj.columns if c in RATE]
        if not front:
            traj.insert(0, 'extra', 7.0)
            front = ['extra']
        traj = traj[front + [c for c in traj.columns if c not in front]]
    elif lay == 2:
        traj = traj[list(traj.columns[::-1])]
    elif lay == 3:
        traj = traj[list(np.random.RandomState(case['sub']).permutation(traj.columns))]
    ctx.label(f'columns={["canonical", "extra_first", "reversed", "permuted"][lay]}')
    if arm is not None and case['cls'] != 'BodyVelocity':
        site = ctx.sut(transform.translate_trajectory, traj, arm)       # the antenna trajectory
    else:
        site = traj
    genf = {'Position': sim.generate_position_measurements, 'NedVelocity': sim.generate_ned_velocity_measurements,
            'BodyVelocity': sim.generate_body_velocity_measurements}[case['cls']]
    arm_arg = getattr(m, 'imu_to_antenna_b', None)        # the lever arm in the form it was handed over (float / int array, list)
    mk = {'Position': lambda d: measurements.Position(d, sd, arm_arg), 'NedVelocity': lambda d: measurements.NedVelocity(d, sd, arm_arg),
          'BodyVelocity': lambda d: measurements.BodyVelocity(d, sd)}[case['cls']]
    larm = 0.0 if arm is None else np.linalg.norm(arm)
    V = np.linalg.norm(pva[EC.VEL].values.astype(float))
    k = 3 if (wa or case['cls'] == 'BodyVelocity') else 2
    # noise free
    d0 = ctx.sut(genf, site, 0.0, 0)
    z0 = np.asarray(ctx.sut(mk(d0).compute_matrices, t, full, em)[0], float)
    tol0 = (1e-7 + 2 * larm ** 2 / 6.3e6 * (1 + abs(np.tan(np.radians(pva.lat))))) if case['cls'] == 'Position' else 64 * EPS * (1 + V + larm)
    ctx.stat('noise_free', np.abs(z0).max() / tol0)
    ctx.check(np.abs(z0).max() <= tol0, 'noise_free_residual_nonzero', lambda: f'z={z0.tolist()} tol {tol0:.3e}')
    # injected error e (as sd * randn with sd = 1)
    E = np.vstack([e, e])
    d1 = ctx.sut(genf, site, 1.0, _FixedNormal(E))
    z1 = np.asarray(ctx.sut(mk(d1).compute_matrices, t, full, em)[0], float)
    tol1 = tol0 + (4 * np.linalg.norm(e) ** 2 * (1 + abs(np.tan(np.radians(pva.lat)))) / 6.3e6 if case['cls'] == 'Position' else 64 * EPS * (1 + np.abs(e).max()))
    ez = np.abs(z1 + e[:k]).max()
    ctx.stat('injected', ez / tol1)
    ctx.check(ez <= tol1, 'injected_error_residual', lambda: f'z={z1.tolist()} expected {(-e[:k]).tolist()} tol {tol1:.3e}')
    ctx.mark_nontrivial(np.linalg.norm(e) > 0.1 and (arm is None or larm > 0.5 or case['cls'] == 'BodyVelocity'))


CLAUSES = [
    Clause('model', case_strategy, run_model, quick=(400, 8), thorough=(24000, 16)),
    Clause('simulator', case_strategy, run_simulator, quick=(300, 4), thorough=(12000, 16)),
]
