"""C13 - no-altitude mode keeps altitude frozen and vertical velocity zero.

Clause `integrator`: the C02 operation-sequence machine in with_altitude=False mode with
arbitrary supplied VD and large vertical specific force; exact-equality invariants after every
operation. Clauses `feedback`, `feedforward`, `measurements`: 2D filter runs over generated
schedules (generator shared with C09/C10) and 2D measurement models.
"""
import numpy as np
import pandas as pd
from hypothesis import strategies as st

from ..core import Clause
from .. import gen
from . import c02

PROPERTY = 'C13'
RULE = ('Cases: (integrator) operation sequences as in C02 restricted to with_altitude=False, initial and '
        'overwritten states with arbitrary VD (up to 300 m/s) and vertical specific force in {0,-9.8,+30} m/s^2; '
        '(filters) 2D runs of both filters over generated schedules with measurements carrying arbitrary '
        'altitude/VD content; (measurements) 2D Position/NedVelocity models. Oracle: exact equality - every row '
        'PRODUCED by the integrator has VD == 0.0 and alt bit-equal to the altitude most recently supplied '
        '(constructor or set_pva; a row overwritten by set_pva is supplied, only its altitude is read), every '
        'feedback-filter row likewise, sd columns down/VD == 0.0, 2-row z/H/R. Non-trivial = history with '
        'non-zero supplied VD or vertical specific-force increments and at least one produced row.')
ASSUMPTIONS = ['NUMBA_BOUNDSCHECK=1', 'bitwise float comparison (no tolerance)']


class AltMachine(c02.Machine):
    def on_start(self, pva):
        self.alt = float(pva.alt)
        self.supplied_rows = {0}          # row numbers whose content was supplied, not produced
        self.overwritten = set()          # rows overwritten by set_pva: their VD is not judged
        self.nonzero_vd = pva.VD != 0.0
        self.produced = 0
        self.invariant('constructor')

    def invariant(self, what):
        tr = self.integ.trajectory
        vd = tr.VD.values
        alt = tr.alt.values
        for r in range(len(tr)):
            if r in self.overwritten:
                continue                   # overwritten row: VD is supplied, not produced
            self.ctx.check(vd[r] == 0.0, f'vd_nonzero_after:{what}', lambda: f'row {r} t={tr.index[r]} VD={vd[r]!r}')
        # altitude: piecewise constant, equal to the most recently supplied one
        cur = None
        for r in range(len(tr)):
            if r in self.supplied_rows:
                cur = self.alt_at[r] if hasattr(self, 'alt_at') and r in self.alt_at else alt[r]
            self.ctx.check(alt[r].view(np.uint64) == np.float64(cur).view(np.uint64), f'altitude_drift_after:{what}',
                           lambda: f'row {r} t={tr.index[r]} alt={alt[r]!r} expected {cur!r}')

    def on_integrate(self, chunk, ret):
        self.produced += len(chunk)
        if len(chunk) and np.any(chunk.dv_z.values != 0):
            self.flags.add('vertical_force')
        self.invariant('integrate')
        self.ctx.check(np.all(ret.VD.values[1:] == 0.0), 'vd_nonzero_in_return', lambda: str(ret.VD.values))

    def on_predict(self, row, ret):
        cur = self.integ.trajectory.alt.values[-1]
        self.ctx.check(ret.VD == 0.0, 'predict_vd_nonzero', lambda: f'{ret.VD!r}')
        self.ctx.check(np.float64(ret.alt).view(np.uint64) == np.float64(cur).view(np.uint64), 'predict_altitude_drift',
                       lambda: f'{ret.alt!r} vs {cur!r}')

    def on_set_pva(self, pva, t):
        r = len(self.integ.trajectory) - 1
        self.supplied_rows.add(r)
        self.overwritten.add(r)
        if not hasattr(self, 'alt_at'):
            self.alt_at = {}
        self.alt_at[r] = float(pva.alt)
        if pva.VD != 0.0:
            self.nonzero_vd = True
            self.flags.add('set_pva_nonzero_vd')
        self.invariant('set_pva')


def run_integrator(case, ctx):
    m = AltMachine(case, ctx)
    m.run()
    ctx.mark_nontrivial(m.produced > 0 and (m.nonzero_vd or 'vertical_force' in m.flags))


CLAUSES = [
    Clause('integrator', c02.case_strategy(modes=(False,)), run_integrator, quick=(240, 8), thorough=(8000, 16)),
]

warmup = c02.warmup
