"""C13 - no-altitude mode keeps altitude frozen and vertical velocity zero.

Clause `integrator`: the C02 operation-sequence machine in with_altitude=False mode with
arbitrary supplied VD and large vertical specific force; exact-equality invariants after every
operation. Clauses `feedback`, `feedforward`, `measurements`: 2D filter runs over generated
schedules (generator shared with C09/C10) and 2D measurement models.
"""
import numpy as np
import pandas as pd
from hypothesis import strategies as st

from ..core import Clause
from .. import gen
from . import c02

PROPERTY = 'C13'
RULE = ('Cases: (integrator) operation sequences as in C02 restricted to with_altitude=False, initial and '
        'overwritten states with arbitrary VD (up to 300 m/s) and vertical specific force in {0,-9.8,+30} m/s^2; '
        '(filters) 2D runs of both filters over generated schedules with measurements carrying arbitrary '
        'altitude/VD content; (measurements) 2D Position/NedVelocity models. Oracle: exact equality - every row '
        'PRODUCED by the integrator has VD == 0.0 and alt bit-equal to the altitude most recently supplied '
        '(constructor or set_pva; a row overwritten by set_pva is supplied, only its altitude is read), every '
        'feedback-filter row likewise, sd columns down/VD == 0.0, 2-row z/H/R. Non-trivial = history with '
        'non-zero supplied VD or vertical specific-force increments and at least one produced row.')
ASSUMPTIONS = ['NUMBA_BOUNDSCHECK=1', 'exact float value comparison, no tolerance (-0.0 == 0.0)']


class AltMachine(c02.Machine):
    def on_start(self, pva):
        self.alt = float(pva.alt)
        self.supplied_rows = {0}          # row numbers whose content was supplied, not produced
        self.overwritten = set()          # rows overwritten by set_pva: their VD is not judged
        self.nonzero_vd = pva.VD != 0.0
        self.produced = 0
        self.invariant('constructor')

    def invariant(self, what):
        tr = self.integ.trajectory
        vd = tr.VD.values
        alt = tr.alt.values
        for r in range(len(tr)):
            if r in self.overwritten:
                continue                   # overwritten row: VD is supplied, not produced
            self.ctx.check(vd[r] == 0.0, f'vd_nonzero_after:{what}', lambda: f'row {r} t={tr.index[r]} VD={vd[r]!r}')
        # altitude: piecewise constant, equal to the most recently supplied one
        cur = None
        for r in range(len(tr)):
            if r in self.supplied_rows:
                cur = self.alt_at[r] if hasattr(self, 'alt_at') and r in self.alt_at else alt[r]
            self.ctx.check(alt[r] == np.float64(cur), f'altitude_drift_after:{what}',
                           lambda: f'row {r} t={tr.index[r]} alt={alt[r]!r} expected {cur!r}')

    def on_integrate(self, chunk, ret):
        self.produced += len(chunk)
        if len(chunk) and np.any(chunk.dv_z.values != 0):
            self.flags.add('vertical_force')
        self.invariant('integrate')
        self.ctx.check(np.all(ret.VD.values[1:] == 0.0), 'vd_nonzero_in_return', lambda: str(ret.VD.values))

    def on_predict(self, row, ret):
        cur = self.integ.trajectory.alt.values[-1]
        self.ctx.check(ret.VD == 0.0, 'predict_vd_nonzero', lambda: f'{ret.VD!r}')
        self.ctx.check(np.float64(ret.alt) == np.float64(cur), 'predict_altitude_drift',
                       lambda: f'{ret.alt!r} vs {cur!r}')

    def on_set_pva(self, pva, t):
        r = len(self.integ.trajectory) - 1
        self.supplied_rows.add(r)
        self.overwritten.add(r)
        if not hasattr(self, 'alt_at'):
            self.alt_at = {}
        self.alt_at[r] = float(pva.alt)
        if pva.VD != 0.0:
            self.nonzero_vd = True
            self.flags.add('set_pva_nonzero_vd')
        self.invariant('set_pva')


def run_integrator(case, ctx):
    m = AltMachine(case, ctx)
    m.run()
    ctx.mark_nontrivial(m.produced > 0 and (m.nonzero_vd or 'vertical_force' in m.flags))


def _run_filter(case, ctx, which):
    from pyins import filters, strapdown, sim
    from .. import sched
    from . import c09
    sc = sched.Scenario(case)
    c09.labels(ctx, sc)
    gm, am = sc.models()
    # the flag as a Python bool or as numpy.bool_ (an element of a boolean configuration array): both mean "switched off"
    kwargs = {'with_altitude': np.False_ if case['sub'] % 3 == 0 else False}
    ctx.label('flag_form=' + ('numpy_bool' if case['sub'] % 3 == 0 else 'bool'))
    step = sc.time_step()
    if step is not None:
        kwargs['time_step'] = step
    if gm is not None:
        kwargs['gyro_model'] = gm
        kwargs['accel_model'] = am
    kwargs['measurements'] = sc.meas_arg()
    alt0 = np.float64(sc.pva0.alt)
    if which == 'feedback':
        pva0 = sc.pva0.copy()
        pva0['VD'] = 7.5                       # supplied vertical velocity must be discarded
        # half of the cases start far from the truth (1 m .. 2 km horizontally, position sigma to match), so that the first
        # corrections are large: the frozen altitude must survive a correction of any size
        rs = np.random.RandomState(case['sub'] ^ 0x13c)
        pos_sd = 5.0
        if rs.rand() < 0.5:
            d = 10 ** rs.uniform(0, 3.3)
            az = rs.uniform(0, 2 * np.pi)
            pva0['lat'] += d * np.cos(az) / 111e3
            pva0['lon'] += d * np.sin(az) / (111e3 * np.cos(np.radians(pva0['lat'])))
            pva0['lon'] = (pva0['lon'] + 180) % 360 - 180
            pos_sd = max(5.0, d)
            ctx.label('start_offset=' + ('<100m' if d < 100 else '>=100m'))
        else:
            ctx.label('start_offset=none')
        res = ctx.sut(filters.run_feedback_filter, pva0, pos_sd, 0.5, 0.5, 1.0, sc.increments, **kwargs)
        tr = res.trajectory
        ctx.check(len(tr) == len(sc.t), 'row_count', f'{len(tr)} vs {len(sc.t)}')
        bad = np.flatnonzero(tr.VD.values != 0.0)
        ctx.check(len(bad) == 0, 'filter_vd_nonzero', lambda: f'rows {bad[:5]} VD {tr.VD.values[bad[:5]]}')
        bad = np.flatnonzero(tr.alt.values != alt0)
        ctx.check(len(bad) == 0, 'filter_altitude_changed', lambda: f'rows {bad[:5]} alt {tr.alt.values[bad[:5]]!r} vs {alt0!r}')
    else:
        err = pd.Series([3.0, -2.0, 0.0, 0.2, -0.1, 0.0, 0.1, -0.1, 0.3], index=gen.ERR_COLS)
        start = sim.perturb_pva(sc.pva0, err)
        start.name = sc.pva0.name
        computed = strapdown.Integrator(start, False).integrate(sc.increments)
        kwargs['increments'] = sc.increments
        res = ctx.sut(filters.run_feedforward_filter, sc.truth, computed, 5.0, 0.5, 0.5, 1.0, **kwargs)
    sd = res.trajectory_sd
    ctx.check(np.all(sd['down'].values == 0.0) and np.all(sd['VD'].values == 0.0), 'vertical_sd_nonzero',
              lambda: f"down {sd['down'].values[:4]} VD {sd['VD'].values[:4]}")
    ctx.check(np.all(np.isfinite(sd.values)), 'sd_not_finite', '')
    if case['meas_mode'] == 'list':
        for cls in sc.samples:
            ncol = 3 if cls == 'BodyVelocity' else 2
            inn = res.innovations[cls]
            if len(inn):
                ctx.check(inn.shape[1] == ncol, f'innovation_width:{cls}', f'{inn.shape}')
    n_meas = sc.n_epochs_inside if case['meas_mode'] == 'list' else 0
    ctx.label(f'corrections={"0" if n_meas == 0 else "1-3" if n_meas <= 3 else ">3"}')
    ctx.mark_nontrivial(n_meas >= 1)


def run_feedback(case, ctx):
    _run_filter(case, ctx, 'feedback')


def run_feedforward(case, ctx):
    _run_filter(case, ctx, 'feedforward')


def meas_strategy():
    return st.fixed_dictionaries({
        'pva': gen.pva_strategy(),
        'cls': st.sampled_from(['Position', 'NedVelocity']),
        'lever': st.sampled_from(['none', 'zero', 'arm']),
        'rates': st.booleans(),
        'sub': st.integers(0, 2 ** 31 - 1),
    })


def run_measurements(case, ctx):
    from pyins import measurements, error_model
    rng = np.random.RandomState(case['sub'])
    pva = gen.to_pva(case['pva'], 12.5)
    if case['rates']:
        pva = pd.concat([pva, pd.Series(rng.uniform(-0.5, 0.5, 3), index=['rate_x', 'rate_y', 'rate_z'])])
    arm = {'none': None, 'zero': np.zeros(3), 'arm': rng.uniform(-3, 3, 3)}[case['lever']]
    sdv = float(10 ** rng.uniform(-2, 1))
    if case['cls'] == 'Position':
        data = pd.DataFrame([[pva.lat + 1e-5, pva.lon - 1e-5, pva.alt + rng.uniform(-500, 500)]], index=[12.5], columns=['lat', 'lon', 'alt'])
        m = measurements.Position(data, sdv, arm)
    else:
        data = pd.DataFrame([[pva.VN + 0.1, pva.VE - 0.2, rng.uniform(-50, 50)]], index=[12.5], columns=['VN', 'VE', 'VD'])
        m = measurements.NedVelocity(data, sdv, arm)
    em = error_model.InsErrorModel(with_altitude=False)
    # call history of the measurement object: fresh in 2D / used with a 3D model first (a 3D run before the 2D one on the same
    # objects) / 2D, 3D, 2D again
    order = case['sub'] % 3
    ctx.label(f'history={["2D_first", "3D_first", "2D_3D_2D"][order]}')
    if order == 1:
        ctx.sut(m.compute_matrices, 12.5, pva, error_model.InsErrorModel(True))
    ret = ctx.sut(m.compute_matrices, 12.5, pva, em)
    ctx.check(ret is not None, 'none_at_present_time', '')
    z, H, R = ret
    ctx.check(np.shape(z) == (2,) and np.shape(H) == (2, 7) and np.shape(R) == (2, 2), 'vertical_row_not_dropped',
              lambda: f'{np.shape(z)} {np.shape(H)} {np.shape(R)}')
    ctx.check(np.array_equal(R, sdv ** 2 * np.eye(2)), 'R_2d', lambda: str(R))
    # the 3D model on the same inputs: first two rows of z agree (the vertical content does not leak)
    z3, H3, R3 = m.compute_matrices(12.5, pva, error_model.InsErrorModel(True))
    ctx.check(np.array_equal(np.asarray(z3)[:2], np.asarray(z)), 'z_2d_differs_from_3d_rows', lambda: f'{z} vs {z3}')
    ctx.check(np.shape(z3) == (3,) and np.shape(H3) == (3, 9) and np.shape(R3) == (3, 3), 'shape_3d', lambda: f'{np.shape(z3)} {np.shape(H3)} {np.shape(R3)}')
    if order == 2:
        z2, H2, R2 = ctx.sut(m.compute_matrices, 12.5, pva, em)
        ctx.check(np.shape(z2) == (2,) and np.shape(H2) == (2, 7) and np.shape(R2) == (2, 2) and np.array_equal(z2, z) and np.array_equal(H2, H),
                  'vertical_row_not_dropped', lambda: f'after a 3D call in between: {np.shape(z2)} {np.shape(H2)} {np.shape(R2)}')
    ctx.label(case['cls'], f"lever={case['lever']}", 'rates' if case['rates'] else 'no_rates')
    ctx.mark_nontrivial(True)


def _sched_2d():
    from .. import sched
    return sched.schedule_strategy(modes=(False,), meas_modes=('list', 'list', 'list', 'list', 'none'))()


CLAUSES = [
    Clause('integrator', c02.case_strategy(modes=(False,)), run_integrator, quick=(240, 8), thorough=(8000, 16)),
    Clause('feedback', _sched_2d, run_feedback, quick=(48, 4), thorough=(1600, 16)),
    Clause('feedforward', _sched_2d, run_feedforward, quick=(48, 4), thorough=(1600, 16)),
    Clause('measurements', meas_strategy, run_measurements, quick=(200, 1), thorough=(4000, 4)),
]

warmup = c02.warmup
