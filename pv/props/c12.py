"""C12 - feedback filter: transparent without data, first-order equal to feedforward.

(a) transparency: bit-identity with plain strapdown integration when no sample falls in the span;
(b) first-order agreement with the feedforward filter on an error-scale ladder;
(c) reproducibility: re-running either filter with the same model objects is bit-identical.
"""
import numpy as np
import pandas as pd
from hypothesis import strategies as st

from ..core import Clause
from .. import gen, sched, errcoords as EC
from ..ref import rot as ROT
from ..ref import wgs84 as W
from ..tol import bits_equal

PROPERTY = 'C12'
RULE = ('Cases: (a) the C09 schedule generator restricted to measurement sets whose samples all lie outside [start, end) '
        '(or None/[]), every time_step class, sensor models {None, bias+noise+walk, full with scale/misalignment}, both modes; '
        '(b) a smooth motion (truth = integration of clean increments), a UNIT error realisation (initial PVA error, sensor '
        'biases and scale/misalignment, measurement noise) multiplied together with every sigma by s in {1, 0.1, 0.01, 0.001} (unit = 10 m, 0.5 m/s, 1 deg level, 5 deg azimuth), 1..3 '
        'sensor classes on IMU epochs, time_step in {0.25, 0.5, 1}, both modes; (c) repeated runs with shared model objects. '
        'Oracles: (a) bitwise equality of values and index with Integrator.integrate; (b) D(s) = max over common result times and '
        'all reported quantities of |feedback - feedforward| / sigma_feedforward (plus relative sigma differences): '
        'D(0.1) <= 0.5 D(1) + 0.1, D(s/10) <= 0.2 D(s) + 0.1 below, and D(0.001) <= 0.2; speeds <= 30 m/s (see ASSUMPTIONS); (c) bitwise equality of every Bunch field. Non-trivial: (a) >= 1 enabled '
        'sensor state and time_step not the IMU interval; (b) D(1) >= 0.2 and >= 2 sensor classes; (c) always.')
ASSUMPTIONS = ['(b) is evaluated at speeds <= 30 m/s: the neglected Coriolis-on-(V x phi) term of the error model makes the filters differ at FIRST order by ~0.002 sigma per m/s (measured), a documented omission of the model, not of the filters',
               '(b) certifies shrinking-in-proportion down to a realisation dependent floor b = 0.1 sigma, not the literal limit',
               'feedforward is linearised about the truth']

TRAJ = gen.TRAJ_COLS


# ------------------------------------------------------------------------------ (a) transparency
def _outside_strategy():
    return sched.schedule_strategy(meas_modes=('list', 'list', 'none', 'empty'))()


def run_transparent(case, ctx):
    from pyins import filters, strapdown, measurements
    sc = sched.Scenario(case)
    # move every sample outside [start, end): before start, exactly end, after end
    t = sc.t
    meas = None
    if case['meas_mode'] == 'list':
        meas = []
        rng = np.random.RandomState(case['sub'] ^ 0xabc)
        for m in sc.measurements:
            d = m.data.copy()
            k = len(d)
            new = np.where(rng.rand(k) < 0.5, t[0] - rng.uniform(1e-6, 3.0, k), t[-1] + np.where(rng.rand(k) < 0.3, 0.0, rng.uniform(1e-6, 3.0, k)))
            new = np.unique(new)
            d = d.iloc[:len(new)]
            d.index = new
            cls = type(m)
            if cls is measurements.BodyVelocity:
                meas.append(cls(d, 0.3))
            else:
                meas.append(cls(d, 2.0 if cls is measurements.Position else 0.3, m.imu_to_antenna_b))
    elif case['meas_mode'] == 'empty':
        meas = []
    gm, am = sc.models()
    kwargs = {'with_altitude': case['with_altitude']}
    step = sc.time_step()
    if step is not None:
        kwargs['time_step'] = step
    if gm is not None:
        kwargs['gyro_model'] = gm
        kwargs['accel_model'] = am
    res = ctx.sut(filters.run_feedback_filter, sc.pva0, 5.0, 0.5, 0.5, 1.0, sc.increments, measurements=meas, **kwargs)
    plain = strapdown.Integrator(sc.pva0, case['with_altitude']).integrate(sc.increments)
    ctx.label(f"step={case['step_kind']}", f"models={case['models']}", f"meas={case['meas_mode']}", 'mode=3D' if case['with_altitude'] else 'mode=2D')
    tr = res.trajectory
    ctx.check(len(tr) == len(plain) and np.array_equal(np.asarray(tr.index, float), np.asarray(plain.index, float)), 'index_differs', '')
    if not bits_equal(tr.values, plain.values):
        bad = np.argwhere(np.ascontiguousarray(tr.values).view(np.uint64) != np.ascontiguousarray(plain.values).view(np.uint64))
        r, c = bad[0]
        ctx.check(False, 'not_transparent', f'case={case}: row {r} (t={tr.index[r]}) column {tr.columns[c]}: filter {tr.values[r, c]!r} vs plain integration {plain.values[r, c]!r}; {len(bad)} cells differ')
    if meas:
        for k, v in res.innovations.items():
            ctx.check(len(v) == 0, 'innovation_from_outside_span', f'{k}: {list(v.index)}')
    if gm is not None:
        ctx.check(np.all(res.gyro.values == 0) and np.all(res.accel.values == 0), 'estimates_nonzero_without_data', '')
    ctx.mark_nontrivial(case['models'] != 'none' and case['step_kind'] != 'equal')


def long_strategy():
    return st.fixed_dictionaries({
        'n': st.sampled_from([10001, 10400, 12000]),          # beyond Integrator.INITIAL_SIZE (10000 rows)
        'time_step': st.sampled_from([7.3, 50.0, 0.9]),
        'with_altitude': st.booleans(),
        'models': st.sampled_from(['none', 'bias', 'full']),
        'sub': st.integers(0, 2 ** 31 - 1),
    })


def run_transparent_long(case, ctx):
    """(a) on a record longer than the integrator's initial buffer: the filter integrates in batches, plain integration in one
    call; anything that happens when the buffers grow in the middle of a run must not show."""
    from pyins import filters, strapdown, inertial_sensor as isn
    n, wa = case['n'], case['with_altitude']
    inc = gen.increments_table(case['sub'], n, t0=2.5, kind='uniform', theta_max=0.01, dv_max=0.1, vertical=-9.8)
    pva = gen.to_pva({'lat': 48.0, 'lon': 11.0, 'alt': 500.0, 'speed': 7.0, 'vdir': [0.6, 0.8, 0.0], 'roll': 3.0, 'pitch': -2.0, 'heading': 70.0}, 2.5)
    if not wa:
        pva['VD'] = 0.0
    kwargs = {'with_altitude': wa, 'time_step': case['time_step']}
    if case['models'] == 'bias':
        kwargs.update(gyro_model=isn.EstimationModel(bias_sd=1e-4, noise=1e-4), accel_model=isn.EstimationModel(bias_sd=1e-2, bias_walk=1e-4))
    elif case['models'] == 'full':
        kwargs.update(gyro_model=isn.EstimationModel(bias_sd=1e-4, noise=1e-4, scale_misal_sd=1e-3 * np.eye(3)),
                      accel_model=isn.EstimationModel(bias_sd=1e-2, noise=1e-3, scale_misal_sd=1e-3))
    res = ctx.sut(filters.run_feedback_filter, pva, 5.0, 0.5, 0.5, 1.0, inc, **kwargs)
    plain = strapdown.Integrator(pva, wa).integrate(inc)
    tr = res.trajectory
    ctx.label(f"n={n}", f"models={case['models']}", 'mode=3D' if wa else 'mode=2D', f"step={case['time_step']}")
    ctx.check(len(tr) == len(plain) and np.array_equal(np.asarray(tr.index, float), np.asarray(plain.index, float)), 'index_differs', '')
    if not bits_equal(tr.values, plain.values):
        bad = np.argwhere(np.ascontiguousarray(tr.values).view(np.uint64) != np.ascontiguousarray(plain.values).view(np.uint64))
        r, c = bad[0]
        ctx.check(False, 'not_transparent', f'case={case}: row {r} (t={tr.index[r]}) column {tr.columns[c]}: filter {tr.values[r, c]!r} vs plain integration {plain.values[r, c]!r}; {len(bad)} cells differ')
    ctx.mark_nontrivial(True)


# ------------------------------------------------------------------------------ (b) first order
def fo_strategy():
    return st.fixed_dictionaries({
        'lat': st.sampled_from([50.0, -33.0, 5.0, 70.0, -70.0]),
        'lon': st.sampled_from([10.0, -120.0, 179.5]),
        'speed': st.sampled_from([0.0, 5.0, 15.0, 30.0]),
        'heading': st.floats(-180, 180),
        'T': st.sampled_from([20.0, 30.0]),
        'time_step': st.sampled_from([0.25, 0.5, 1.0, 0.02]),          # 0.02 is below the IMU interval (0.05 s)
        'gyro_axes': st.lists(st.booleans(), min_size=3, max_size=3),      # which axes carry a bias state (a disabled axis may precede an enabled one)
        'accel_axes': st.lists(st.booleans(), min_size=3, max_size=3),
        'with_altitude': st.booleans(),
        'sensors': st.lists(st.sampled_from(['Position', 'NedVelocity', 'BodyVelocity']), min_size=1, max_size=3, unique=True),
        'sm': st.booleans(),
        # round-4 seeds: where the epochs sit relative to the IMU samples, attitude-dependent measurements during a banked turn
        'placement': st.sampled_from(['rows', 'rows', 'between', 'between', 'first_interval', 'start']),
        'lever': st.booleans(),
        'dyn': st.sampled_from([0, 1, 1]),
        't0': st.sampled_from([0.0, 0.0, 345600.0]),             # time origin (seconds-of-week style stamps)
        'imu': st.sampled_from(['uniform', 'uniform', 'two_intervals']),      # two_intervals: IMU intervals alternate 0.05 / 0.025 s
        'sub': st.integers(0, 2 ** 31 - 1),
    })


ARM = np.array([1.5, -0.7, 0.4])


def _fo_run(ctx, case, s):
    from pyins import filters, strapdown, measurements, inertial_sensor as isn, sim
    rng = np.random.RandomState(case['sub'])
    wa = case['with_altitude']
    hz = 20
    dt = 1.0 / hz
    n = int(round(case['T'] * hz))
    t0 = float(case.get('t0', 0.0))
    # per-row interval lengths: uniform 20 Hz, or alternating 0.05 / 0.025 s (no interval longer than in the uniform case)
    dts = np.full(n, dt) if case.get('imu', 'uniform') == 'uniform' else dt * np.where(np.arange(n) % 2 == 0, 1.0, 0.5)
    t = dt * np.arange(1, n + 1) if case.get('imu', 'uniform') == 'uniform' else np.cumsum(dts)      # time since the origin (signals are functions of it); stamps are t0 + t
    tt = np.r_[0.0, t]                         # time of trajectory row k (row 0 = the initial state)
    crs = np.radians(case['heading'])
    v = case['speed']
    dyn = case.get('dyn', 0)
    roll0, pitch0 = (2.0, -3.0) if dyn == 0 else (20.0, -12.0)
    pva = pd.Series([case['lat'], case['lon'], 200.0, v * np.cos(crs), v * np.sin(crs), 0.0, roll0, pitch0, case['heading']], index=TRAJ, name=t0)
    C0 = np.asarray(ROT.dcm_from_rph(pva[EC.RPH].values.astype(float)), float)
    g = float(W.gravity(case['lat'], 200.0))
    w = 0.03 * np.column_stack([np.sin(0.3 * t + 0.2), np.cos(0.2 * t), np.sin(0.25 * t + 1.0)])
    if dyn:
        w = w + np.array([0.0, 0.0, 0.3])          # steady 17 deg/s turn about the body z axis while rolled and pitched
    fn = np.column_stack([0.8 * np.sin(0.2 * t), 0.6 * np.cos(0.15 * t), -g + (0.2 * np.sin(0.3 * t) if wa else 0 * t)])
    # body-frame specific force from the attitude history (own propagation of the body rate), so that the navigation-frame
    # force is the designed one: in the no-altitude mode the vertical force must stay balanced (= -g) for the 2D model to apply
    fb = np.empty_like(fn)
    C = C0.copy()
    for k in range(n):
        Cm = C @ np.asarray(ROT.exp_so3(w[k] * dts[k] / 2, float), float)
        fb[k] = Cm.T @ fn[k]
        C = C @ np.asarray(ROT.exp_so3(w[k] * dts[k], float), float)
    D = dts[:, None]
    clean = pd.DataFrame(np.column_stack([dts, w * D, fb * D]), index=pd.Index(t0 + t, name='time'), columns=gen.INC_COLS)
    truth = strapdown.Integrator(pva, wa).integrate(clean)
    sds = (10.0 * s, 0.5 * s, 1.0 * s, 5.0 * s)
    smv = 1e-3 * s * np.eye(3) if case['sm'] else None
    gax = np.array(case.get('gyro_axes', [True] * 3), float)
    aax = np.array(case.get('accel_axes', [True] * 3), float)
    if not gax.any():
        gax[2] = 1.0
    if not aax.any():
        aax[1] = 1.0
    gm = isn.EstimationModel(bias_sd=1e-4 * s * gax, noise=1e-3 * s, bias_walk=1e-5 * s * gax, scale_misal_sd=smv)
    am = isn.EstimationModel(bias_sd=0.02 * s * aax, noise=5e-3 * s, scale_misal_sd=smv)
    u = rng.randn(40)                                     # the UNIT realisation, identical for every s
    bg, ba = 1e-4 * s * u[0:3] * gax, 0.02 * s * u[3:6] * aax
    Tg = np.eye(3) + (1e-3 * s * np.diag(u[6:9]) if case['sm'] else 0)
    Ta = np.eye(3) + (1e-3 * s * np.diag(u[9:12]) if case['sm'] else 0)
    inc = clean.copy()
    inc[gen.INC_COLS[1:4]] = (Tg @ (w * D).T).T + bg * D
    inc[gen.INC_COLS[4:7]] = (Ta @ (fb * D).T).T + ba * D
    err = pd.Series(np.array([sds[0]] * 3 + [sds[1]] * 3 + [sds[2]] * 2 + [sds[3]]) * u[12:21] * 0.7, index=gen.ERR_COLS)
    if not wa:
        err['down'] = 0.0
        err['VD'] = 0.0
    start = sim.perturb_pva(pva, err)
    start.name = t0
    ms = []
    rs = np.random.RandomState(case['sub'] ^ 0x77)
    from pyins import transform
    from .c11 import interp_pose
    pl = case.get('placement', 'rows')
    arm = ARM if case.get('lever') else None
    for j, cls in enumerate(case['sensors']):
        off = 0 if case['sub'] % 2 == 0 else 7 * j          # even sub-seeds: all sensors share their epochs
        pos = np.arange(hz + off, n, 2 * hz)                 # row numbers (row k is at time k dt)
        frac = np.zeros(len(pos))
        if pl == 'between':
            frac = np.random.RandomState(case['sub'] ^ (0x51 + (0 if case['sub'] % 2 == 0 else j))).uniform(0.1, 0.9, len(pos)) * case.get('frac_scale', 1.0)
        elif pl == 'first_interval':
            pos, frac = np.r_[0, pos], np.r_[0.3 + 0.1 * (0 if case['sub'] % 2 == 0 else j), frac]
        elif pl == 'start':
            pos, frac = np.r_[0, pos], np.r_[0.0, frac]
        rows = pd.DataFrame([truth.iloc[k] if a == 0 else interp_pose(truth.iloc[k], truth.iloc[k + 1], a) for k, a in zip(pos, frac)],
                            index=pd.Index(t0 + (tt[pos] + frac * (tt[np.minimum(pos + 1, n)] - tt[pos]) if case.get('imu', 'uniform') != 'uniform'
                                                 else (pos + frac) * dt), name='time'), columns=TRAJ)
        if arm is not None and cls != 'BodyVelocity':
            rates = pd.DataFrame(w[np.minimum(pos, n - 1)], index=rows.index, columns=['rate_x', 'rate_y', 'rate_z'])
            rows = transform.translate_trajectory(pd.concat([rows, rates], axis=1), arm)[TRAJ]       # the antenna's trajectory
        e = rs.randn(len(rows), 3)
        if cls == 'Position':
            ms.append(measurements.Position(sim.generate_position_measurements(rows, 1.0, _Fixed(e * 2.0 * s)), 2.0 * s, arm))
        elif cls == 'NedVelocity':
            ms.append(measurements.NedVelocity(sim.generate_ned_velocity_measurements(rows, 1.0, _Fixed(e * 0.1 * s)), 0.1 * s, arm))
        else:
            ms.append(measurements.BodyVelocity(sim.generate_body_velocity_measurements(rows, 1.0, _Fixed(e * 0.1 * s)), 0.1 * s))
    fbr = ctx.sut(filters.run_feedback_filter, start, *sds, inc, gm, am, ms, time_step=case['time_step'], with_altitude=wa)
    computed = strapdown.Integrator(start, wa).integrate(inc)
    ffr = ctx.sut(filters.run_feedforward_filter, truth, computed, *sds, gm, am, ms, increments=inc, time_step=case['time_step'], with_altitude=wa)
    return fbr, ffr


class _Fixed(np.random.RandomState):
    def __init__(self, value):
        super().__init__(0)
        self._value = np.asarray(value, float)

    def randn(self, *shape):
        assert tuple(shape) == self._value.shape
        return self._value.copy()


def disagreement(fbr, ffr):
    from pyins import transform
    idx = ffr.trajectory.index.intersection(fbr.trajectory_sd.index)
    sd = ffr.trajectory_sd.loc[idx]
    d = transform.compute_state_difference(fbr.trajectory.loc[idx], ffr.trajectory.loc[idx])
    sdv = sd.values.astype(float)
    m = sdv > 0
    out = {'trajectory': float((np.abs(d[sd.columns].values.astype(float))[m] / sdv[m]).max())}
    for nm in ('gyro', 'accel'):
        e = getattr(fbr, nm).loc[idx].values.astype(float)
        f = getattr(ffr, nm).loc[idx].values.astype(float)
        sf = getattr(ffr, nm + '_sd').loc[idx].values.astype(float)
        out[nm] = float((np.abs(e - f) / sf).max()) if e.size else 0.0
        sb = getattr(fbr, nm + '_sd').loc[idx].values.astype(float)
        out[nm + '_sd'] = float(np.abs(sb / sf - 1).max()) if e.size else 0.0
    sb = fbr.trajectory_sd.loc[idx].values.astype(float)
    out['trajectory_sd'] = float(np.abs(sb[m] / sdv[m] - 1).max())
    return out, len(idx)


# measured on the unchanged tree (~400 cases): the disagreement follows ~a*s down to an s-independent floor that grows with
# speed x Earth rate x azimuth uncertainty (the error model's documented omission, C04: Coriolis acting on V x phi is the leading
# attitude coupling of the VERTICAL channel, which the linear filter does not model and a weakly observable accelerometer state
# absorbs): 0.011 / 0.075 / 0.27 sigma at 0 / 30 / 120 m/s northbound. Speeds are therefore generated up to 30 m/s; b and tau
# leave >= 1.3x / 2.5x above the measured floor.
B_FLOOR = 0.1
TAU = 0.2
ZOH = 1.0          # allowance for the known between-sample hold floor (measured max 0.44 sigma)
B_SD = 0.02        # relative disagreement of the standard-deviation tables: measured floor 1e-3
TAU_SD = 0.02


def run_first_order(case, ctx):
    ctx.label('mode=3D' if case['with_altitude'] else 'mode=2D', f"sensors={len(case['sensors'])}", 'sm' if case['sm'] else 'no_sm',
              'shared_epochs' if (case['sub'] % 2 == 0 and len(case['sensors']) > 1) else 'separate_epochs',
              f"step={case['time_step']}", f"speed={case['speed']}", f"epochs={case.get('placement', 'rows')}", f"imu={case.get('imu', 'uniform')}",
              'lever' if case.get('lever') else 'no_lever', 'banked_turn' if case.get('dyn') else 'gentle',
              't0=0' if not case.get('t0') else 't0=large',
              'bias_axes=leading_block' if (sorted(case.get('gyro_axes', [1]), reverse=True) == list(case.get('gyro_axes', [1])) and
                                            sorted(case.get('accel_axes', [1]), reverse=True) == list(case.get('accel_axes', [1]))) else 'bias_axes=gap_before_enabled')
    D = {}
    LAD = (1.0, 0.1, 0.01, 0.001)
    for s in LAD:
        fbr, ffr = _fo_run(ctx, case, s)
        D[s], ncommon = disagreement(fbr, ffr)
        ctx.check(ncommon >= 5, 'no_common_result_times', f'{ncommon}')
    names = list(D[1.0].keys())
    # epochs between IMU samples: known finding C12-between-sample-hold (DESIGN 9.2). Both filters hold the error state over the
    # fraction of the IMU interval before the epoch, and the feedforward filter holds the whole *estimated* error, which makes the
    # two differ at first order by ~ dt |x_v| / sigma_p: a flat floor measured at <= 0.44 sigma (64 cases, p90 0.27) at 20 Hz.
    # Such cases are judged against the wider allowance ZOH; inside it but above the ordinary floor they are counted as the
    # known finding, beyond it they are violations like any other.
    held = case.get('placement', 'rows') in ('between', 'first_interval')
    over_base = []
    for q in names:
        lad = [D[x][q] for x in LAD]
        is_sd = q.endswith('_sd')
        b, tau = (B_SD, TAU_SD) if is_sd else (B_FLOOR, TAU)
        wide = held and not is_sd
        for a, bb in zip(LAD[:-1], LAD[1:]):
            # the first step leaves the strongly non-linear regime (5 deg azimuth error): only require halving there
            shrink = (0.5 if a == 1.0 else 0.2) * D[a][q]
            ctx.stat(f'shrink_{q}' + ('_held' if wide else ''), D[bb][q] / (shrink + (ZOH if wide else b)))
            ctx.check(D[bb][q] <= shrink + (ZOH if wide else b), f'disagreement_not_shrinking:{q}',
                      lambda: f'case={case}: {q} disagreement over the ladder s={LAD}: {lad} (sigma units)')
            if D[bb][q] > shrink + b:
                over_base.append((q, lad))
        ctx.stat(f'small_scale_{q}' + ('_held' if wide else ''), D[LAD[-1]][q] / (ZOH if wide else tau))
        ctx.check(D[LAD[-1]][q] <= (ZOH if wide else tau), f'first_order_disagreement:{q}',
                  lambda: f'case={case}: at error scale {LAD[-1]} the filters disagree in {q} by {D[LAD[-1]][q]:.3e} sigma; ladder {lad}')
        if D[LAD[-1]][q] > tau:
            over_base.append((q, lad))
    if over_base:
        ctx.check(False, 'first_order_floor:between_sample_epochs',
                  lambda: f'case={case}: epochs between IMU samples leave a disagreement floor that does not shrink with the error scale: {over_base[:3]}')
    ctx.mark_nontrivial(max(D[1.0].values()) >= 0.2 and len(case['sensors']) >= 2)


# ------------------------------------------------------------------------------ (c) reproducibility
def bunch_equal(a, b):
    for k in ('trajectory', 'trajectory_sd', 'gyro', 'gyro_sd', 'accel', 'accel_sd'):
        x, y = a[k], b[k]
        if not (x.shape == y.shape and list(x.columns) == list(y.columns) and np.array_equal(np.asarray(x.index, float), np.asarray(y.index, float))
                and bits_equal(x.values.astype(float), y.values.astype(float))):
            return k
    if set(a.innovations) != set(b.innovations):
        return 'innovations'
    for k in a.innovations:
        x, y = a.innovations[k], b.innovations[k]
        if not (x.shape == y.shape and bits_equal(x.values.astype(float), y.values.astype(float)) and
                np.array_equal(np.asarray(x.index, float), np.asarray(y.index, float))):
            return 'innovations:' + k
    return None


def run_repro(case, ctx):
    from pyins import filters, strapdown, sim
    sc = sched.Scenario(case)
    gm, am = sc.models()
    kwargs = {'with_altitude': case['with_altitude'], 'measurements': sc.meas_arg()}
    step = sc.time_step()
    if step is not None:
        kwargs['time_step'] = step
    if gm is not None:
        kwargs['gyro_model'] = gm
        kwargs['accel_model'] = am
    ctx.label(f"models={case['models']}", f"meas={case['meas_mode']}")
    fb1 = ctx.sut(filters.run_feedback_filter, sc.pva0, 5.0, 0.5, 0.5, 1.0, sc.increments, **kwargs)
    err = pd.Series([3.0, -2.0, 1.0 if case['with_altitude'] else 0.0, 0.2, -0.1, 0.0, 0.1, -0.1, 0.3], index=gen.ERR_COLS)
    start = sim.perturb_pva(sc.pva0, err)
    start.name = sc.pva0.name
    computed = strapdown.Integrator(start, case['with_altitude']).integrate(sc.increments)
    ff1 = ctx.sut(filters.run_feedforward_filter, sc.truth, computed, 5.0, 0.5, 0.5, 1.0, increments=sc.increments, **kwargs)
    fb1b = ctx.sut(filters.run_feedback_filter, sc.pva0, 5.0, 0.5, 0.5, 1.0, sc.increments, **kwargs)    # immediately again
    k = bunch_equal(fb1, fb1b)
    ctx.check(k is None, 'feedback_not_reproducible', lambda: f'case={case}: field {k} differs when the feedback filter is re-run with the same model objects')
    fb2 = ctx.sut(filters.run_feedback_filter, sc.pva0, 5.0, 0.5, 0.5, 1.0, sc.increments, **kwargs)     # after the other filter used the models
    ff2 = ctx.sut(filters.run_feedforward_filter, sc.truth, computed, 5.0, 0.5, 0.5, 1.0, increments=sc.increments, **kwargs)
    k = bunch_equal(fb1, fb2)
    ctx.check(k is None, 'feedback_not_reproducible', lambda: f'case={case}: field {k} differs between two runs with the same model objects')
    k = bunch_equal(ff1, ff2)
    ctx.check(k is None, 'feedforward_not_reproducible', lambda: f'case={case}: field {k} differs between two runs with the same model objects')
    ctx.mark_nontrivial(case['models'] != 'none' and case['meas_mode'] == 'list' and sc.n_epochs_inside > 0)


CLAUSES = [
    Clause('transparent', _outside_strategy, run_transparent, quick=(64, 8), thorough=(2400, 16)),
    Clause('transparent_long', long_strategy, run_transparent_long, quick=(12, 3), thorough=(96, 16), shrink_quick=False),
    Clause('first_order', fo_strategy, run_first_order, quick=(16, 4), thorough=(320, 16), shrink_quick=False),
    Clause('reproducible', sched.schedule_strategy(), run_repro, quick=(24, 4), thorough=(800, 16), shrink_quick=False),
]


def warmup():
    from . import c02
    c02.warmup()
