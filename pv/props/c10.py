"""C10 - feedforward filter terminates and consumes every schedule exactly once."""
import numpy as np
import pandas as pd

from ..core import Clause
from .. import sched, gen
from . import c09

PROPERTY = 'C10'
RULE = ('Cases: the C09 schedule generator applied to a (nominal, computed) trajectory pair on the same index '
        '(computed = strapdown integration from a perturbed start), with and without `increments` (always with '
        'them when scale/misalignment states are modelled), time_step classes incl. the default 0.1 s on 10 Hz '
        'rows, below the row interval, below a gap, above the span; measurements in {list, None, []}. Oracles: loop '
        'budget n_rows+n_epochs+2; all result tables share one strictly increasing index that is a subset of the '
        'input times, starts at the first and never steps further than max(time_step, local row gap); every '
        'sample in [start,end) yields exactly one innovation row in time order, none from outside; all finite; '
        'no exception. Non-trivial as in C09.')
ASSUMPTIONS = c09.ASSUMPTIONS


def run_feedforward(case, ctx):
    from pyins import filters, strapdown, sim
    sc = sched.Scenario(case)
    c09.labels(ctx, sc)
    gm, am = sc.models()
    nominal = sc.truth
    err = pd.Series([3.0, -2.0, 1.0 if case['with_altitude'] else 0.0, 0.2, -0.1, 0.05 if case['with_altitude'] else 0.0,
                     0.1, -0.1, 0.3], index=gen.ERR_COLS)
    start = sim.perturb_pva(sc.pva0, err)
    start.name = sc.pva0.name
    computed = strapdown.Integrator(start, case['with_altitude']).integrate(sc.increments)
    kwargs = {}
    step = sc.time_step()
    if step is not None:
        kwargs['time_step'] = step
    with_inc = case['models'] == 'full' or case['sub'] % 2 == 0
    if gm is not None:
        kwargs['gyro_model'] = gm
        kwargs['accel_model'] = am
    if with_inc:
        inc = sc.increments
        if case.get('inc_cover', 'full') == 'holes' and len(inc) > 2:
            # an increments table that does not cover every row interval (outage, late start, early end): some slices are empty
            rs = np.random.RandomState(case['sub'] ^ 0x401e)
            drop = rs.rand(len(inc)) < 0.25
            drop[[0, -1]] |= rs.rand(2) < 0.5
            if drop.all():
                drop[len(inc) // 2] = False
            inc = inc.loc[~drop]
            ctx.label('increments_cover=holes')
        kwargs['increments'] = inc
    ctx.label('increments=yes' if with_inc else 'increments=no')
    meas = sc.meas_arg()
    if meas is not None or case['sub'] % 3 == 0:
        kwargs['measurements'] = meas
    if not case['with_altitude'] or case['sub'] % 5:
        kwargs['with_altitude'] = case['with_altitude']
    # equally indexed pairs come in more than one guise: the index name may differ (or be missing), and whole-second stamps
    # may be stored as integers in one or both tables
    lay = case['sub'] % 4
    whole = bool(case.get('whole_seconds')) and case['sampling'] == 'uniform'
    if lay == 1:
        computed = computed.copy()
        computed.index = computed.index.rename(None)
    elif lay == 2:
        nominal = nominal.copy()
        nominal.index = nominal.index.rename('t')
    if whole and case['sub'] % 3 != 0:
        nominal, computed = nominal.copy(), computed.copy()
        nominal.index = nominal.index.astype(np.int64)
        if case['sub'] % 3 == 1:
            computed.index = computed.index.astype(np.int64)
        ctx.label('integer_index')
    ctx.label(f'index_names={["same", "one_unnamed", "different", "same"][lay]}')
    snap_n, snap_c = nominal.copy(), computed.copy()
    budget = len(nominal) + (sc.n_epochs_inside if case['meas_mode'] == 'list' else 0) + 2
    res = ctx.sut(sched.run_with_budget, budget, filters.run_feedforward_filter,
                  nominal, computed, 5.0, 0.5, 0.5, 1.0, **kwargs)
    ctx.check(nominal.equals(snap_n) and computed.equals(snap_c), 'input_modified:trajectory', '')
    t = sc.t
    base = c09.check_tables(ctx, sc, res, t[0], t)
    ti = np.asarray(res.trajectory.index, float)
    ctx.check(len(ti) == len(base) and np.array_equal(ti, base), 'index_mismatch:trajectory', '')
    ctx.check(np.all(np.isfinite(res.trajectory.values.astype(float))), 'not_finite:trajectory', '')
    ctx.check(list(res.trajectory.columns) == gen.TRAJ_COLS, 'trajectory_columns', '')
    # step bound: never further than max(time_step, local row gap)
    eff = 0.1 if step is None else step
    pos = np.searchsorted(t, base)
    for a, b, ia in zip(base[:-1], base[1:], pos[:-1]):
        local_gap = t[ia + 1] - t[ia]
        bound = max(eff, local_gap)
        ctx.check(b - a <= bound * (1 + 1e-12) + 1e-12, 'step_too_long',
                  lambda: f'{a} -> {b} (step {b - a}) exceeds max(time_step={eff}, local gap={local_gap})')
    ctx.stat('loop_iterations/budget', sched.last_loop_count() / (budget + 1))
    c09.check_innovations(ctx, sc, res, stamped_with_own_time=False)
    # innovation rows are stamped with result-grid times no later than their sample
    if case['meas_mode'] == 'list':
        for cls in sc.samples:
            got = np.asarray(res.innovations[cls].index, float)
            exp = sc.expected_samples(cls)
            if len(got) == len(exp) and len(got):
                ctx.check(np.all(np.isin(got, t)) and np.all(got <= exp) and
                          np.all(t[np.searchsorted(t, got, side='right') % len(t)] > exp - 0) ,
                          f'innovation_grid_time:{cls}', lambda: f'{got.tolist()} for samples {exp.tolist()}')
    ctx.mark_nontrivial(c09.nontrivial(sc))


CLAUSES = [
    Clause('feedforward', sched.schedule_strategy(), run_feedforward, quick=(160, 16), thorough=(4800, 16)),
]

warmup = c09.warmup
