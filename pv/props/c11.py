"""C11 - feedforward filter equals the exact linear-Gaussian estimator of its model.

Oracle: own one-shot Gauss-Markov solution (pv/ref/lingauss.py::batch_estimate) of the
time-varying linear system assembled here from PUBLIC pieces only (InsErrorModel.system_matrices,
EstimationModel attributes, Measurement.compute_matrices) with own discretisation and own
interpolation, on the time grid the filter reports.
"""
import numpy as np
import pandas as pd
from hypothesis import strategies as st

from ..core import Clause
from .. import gen, errcoords as EC
from ..ref import lingauss as LG
from ..ref import rot as ROT
from ..ref import wgs84 as W

PROPERTY = 'C11'
RULE = ('Cases: 10..30 s runs at 10/20 Hz rows over the C04 operating domain (nominal = strapdown integration of clean '
        'increments, computed = integration of corrupted increments from a perturbed start); gyro/accel EstimationModels with '
        'random enable masks (bias, bias+walk, noise, 0..9 scale/misalignment entries) and sigmas log-uniform over 4 decades; '
        '1..3 measurement sensors (Position/NedVelocity/BodyVelocity, lever arms none/zero/non-zero) with on-grid, off-grid and '
        'clustered epochs; time_step in [0.2, 5] s; both altitude modes. Oracle: joint-Gaussian conditioning over the whole run '
        'with own discretisation (ODE series) and own pose interpolation. Compared: compensated trajectory, trajectory_sd, '
        'gyro/accel estimates and sd, every innovations table. Non-trivial = >= 2 sensor classes, >= 1 bias-walk or '
        'scale/misalignment state and >= 5 grid nodes carrying a correction.')
ASSUMPTIONS = ['tolerance 1e-6 sigma on estimates, 1e-6 relative on sigma, 1e-6 on innovations, widened by eps*cond(Cov Z)',
               'the time grid is read from the filter output (scheduling is C10); the filter\'s rotation averaging is reproduced by '
               'its closed form (geodesic point at the chordal-mean fraction), written independently']

TRAJ = gen.TRAJ_COLS


def model_strategy():
    return st.fixed_dictionaries({
        'bias': st.lists(st.integers(0, 2), min_size=3, max_size=3),
        'noise': st.lists(st.booleans(), min_size=3, max_size=3),
        'sm': st.lists(st.booleans(), min_size=9, max_size=9),
        'exp': st.floats(-2.0, 2.0),
    })


def case_strategy():
    sensor = st.fixed_dictionaries({
        'cls': st.sampled_from(['Position', 'NedVelocity', 'BodyVelocity']),
        'lever': st.sampled_from(['none', 'zero', 'arm']),
        'n': st.integers(1, 6),
        'placement': st.sampled_from(['on_grid', 'off_grid', 'clustered', 'mixed', 'with_start']),       # with_start: a sample exactly at the first epoch
    })
    return st.fixed_dictionaries({
        'lat': st.one_of(st.sampled_from([0.0, 75.0, -75.0, 45.0, -45.0]), st.floats(-80, 80)),
        'lon': st.floats(-180, 180),
        'alt': st.floats(0, 20000),
        'speed': st.one_of(st.sampled_from([0.0, 1.0]), st.floats(0, 30.0), st.floats(30.0, 300.0)),
        'heading': st.floats(-180, 180), 'roll': st.floats(-30, 30), 'pitch': st.floats(-30, 30),
        'T': st.sampled_from([10.0, 20.0, 30.0]),
        'rate_hz': st.sampled_from([10, 20, 10, 2, 4]),          # 2 and 4 Hz: rows further apart than a small time_step
        'time_step': st.one_of(st.sampled_from([0.2, 1.0, 5.0, 0.35, 0.05]), st.floats(0.2, 5.0)),
        'with_altitude': st.booleans(),
        'gyro': model_strategy(), 'accel': model_strategy(),
        'sensors': st.lists(sensor, min_size=1, max_size=3, unique_by=lambda s: s['cls']),
        'sd_exp': st.floats(-2.0, 2.0),
        't0': st.sampled_from([0.0, 0.0, 1000.5, -30.0, 1.7e9, 1.7e9]),        # 1.7e9: Unix-epoch seconds (stamps 2.4e-7 s apart in float64)
        'sub_inc': st.sampled_from([1, 1, 2, 5]),           # increments per trajectory row interval (an IMU faster than the stored trajectory)
        'sub': st.integers(0, 2 ** 31 - 1),
    })


def make_estimation_model(m, base_bias, base_noise, base_walk, rng):
    from pyins import inertial_sensor as isn
    k = 10 ** m['exp']
    bias_on = np.array([b > 0 for b in m['bias']])
    walk_on = np.array([b > 1 for b in m['bias']])
    noise_on = np.array(m['noise'])
    sm_on = np.array(m['sm']).reshape(3, 3)
    bias_sd = np.where(bias_on, base_bias * k * rng.uniform(0.5, 2, 3), 0.0)
    walk = np.where(walk_on, base_walk * k * rng.uniform(0.5, 2, 3), 0.0)
    noise = np.where(noise_on, base_noise * k * rng.uniform(0.5, 2, 3), 0.0)
    sm = np.where(sm_on, 1e-3 * k * rng.uniform(0.5, 2, (3, 3)), 0.0)
    return isn.EstimationModel(bias_sd=bias_sd if bias_on.any() else None, noise=noise if noise_on.any() else None,
                               bias_walk=walk if walk_on.any() else None, scale_misal_sd=sm if sm_on.any() else None)


def interp_pose(a, b, alpha):
    """Linear in lat/lon/alt/velocity; rotation = geodesic point at the chordal-mean fraction (own code)."""
    va = a[TRAJ].values.astype(float)
    vb = b[TRAJ].values.astype(float)
    out = (1 - alpha) * va + alpha * vb
    Ca = np.asarray(ROT.dcm_from_rph(va[6:9]), float)
    Cb = np.asarray(ROT.dcm_from_rph(vb[6:9]), float)
    rv = np.asarray(ROT.log_so3(Ca.T @ Cb, float), float)
    d = np.linalg.norm(rv)
    frac = alpha if d < 1e-12 else np.arctan2(alpha * np.sin(d), (1 - alpha) + alpha * np.cos(d)) / d
    C = Ca @ np.asarray(ROT.exp_so3(rv * frac, float), float)
    out[6:9] = ROT.rph_from_dcm(C)
    return pd.Series(out, index=TRAJ)


class Scenario:
    def __init__(self, case):
        from pyins import strapdown, measurements, sim
        self.case = case
        rng = np.random.RandomState(case['sub'])
        wa = case['with_altitude']
        T, hz = case['T'], case['rate_hz']
        ksub = int(case.get('sub_inc', 1))
        row_dt = 1.0 / hz
        dt = row_dt / ksub
        n = int(round(T * hz)) * ksub
        t0 = case.get('t0', 0.0)
        t = t0 + dt * np.arange(1, n + 1)
        crs = np.radians(case['heading'])
        v = case['speed']
        pva = pd.Series([case['lat'], case['lon'], case['alt'], v * np.cos(crs), v * np.sin(crs), 0.0,
                         case['roll'], case['pitch'], case['heading']], index=TRAJ, name=t0)
        C0 = np.asarray(ROT.dcm_from_rph(pva[EC.RPH].values.astype(float)), float)
        g = float(W.gravity(case['lat'], case['alt']))
        w = 0.03 * np.column_stack([np.sin(0.3 * t + 0.2), np.cos(0.2 * t), np.sin(0.25 * t + 1.0)])
        fn = np.column_stack([0.5 * np.sin(0.2 * t), 0.4 * np.cos(0.15 * t), -g + (0.2 * np.sin(0.3 * t) if wa else 0 * t)])
        fb = (C0.T @ fn.T).T
        self.inc_clean = pd.DataFrame(np.column_stack([np.full(n, dt), w * dt, fb * dt]), index=pd.Index(t, name='time'), columns=gen.INC_COLS)
        self.nominal = strapdown.Integrator(pva, wa).integrate(self.inc_clean).iloc[::ksub]       # rows every ksub-th increment
        self.gm = make_estimation_model(case['gyro'], 1e-4, 1e-4, 1e-6, rng)
        self.am = make_estimation_model(case['accel'], 1e-2, 1e-3, 1e-4, rng)
        # corrupted increments: realised biases / scale-misalignment drawn from the model sigmas (own draw)
        Tg = np.eye(3) + self.gm.scale_misal_sd * rng.randn(3, 3)
        Ta = np.eye(3) + self.am.scale_misal_sd * rng.randn(3, 3)
        bg = self.gm.bias_sd * rng.randn(3)
        ba = self.am.bias_sd * rng.randn(3)
        inc = self.inc_clean.copy()
        inc[gen.INC_COLS[1:4]] = (Tg @ (w * dt).T).T + bg * dt
        inc[gen.INC_COLS[4:7]] = (Ta @ (fb * dt).T).T + ba * dt
        self.inc = inc
        k = 10 ** case['sd_exp']
        self.sds = (5.0 * k, 0.2 * k, 0.1 * k, 0.5 * k)
        err = pd.Series(np.array([self.sds[0]] * 3 + [self.sds[1]] * 3 + [self.sds[2]] * 2 + [self.sds[3]]) * rng.randn(9) * 0.7,
                        index=gen.ERR_COLS)
        if not wa:
            err['down'] = 0.0
            err['VD'] = 0.0
        start = sim.perturb_pva(pva, err)
        start.name = t0
        self.computed = strapdown.Integrator(start, wa).integrate(inc).iloc[::ksub]
        dt = row_dt                  # from here on: the spacing of the trajectory rows
        times = np.asarray(self.nominal.index, float)
        self.times = times
        self.measurements = []
        self.sample_times = {}
        self.shared = False
        for s in case['sensors']:
            k = s['n']
            idx = np.sort(rng.choice(np.arange(1, len(times) - 1), size=k, replace=False))
            if s['placement'] == 'on_grid':
                ts = times[idx]
            elif s['placement'] == 'off_grid':
                ts = times[idx] + rng.uniform(0.05, 0.95, k) * dt
            elif s['placement'] == 'clustered':
                ts = times[idx[0]] + np.sort(rng.uniform(0.05, 0.95, k)) * dt
            elif s['placement'] == 'with_start':
                ts = np.r_[times[0], times[idx[1:]]]
            else:
                ts = times[idx] + np.where(rng.rand(k) < 0.5, 0.0, rng.uniform(0.05, 0.95, k) * dt)
            if self.sample_times and rng.rand() < 0.5:
                # epochs shared with the first sensor (two sensors at one time)
                first = next(iter(self.sample_times.values()))
                ts = np.concatenate([ts, first[:2]])
                self.shared = True
            ts = np.unique(ts)
            truth = pd.DataFrame([interp_pose(self.nominal.iloc[np.searchsorted(times, x, side='right') - 1],
                                              self.nominal.iloc[min(np.searchsorted(times, x, side='right'), len(times) - 1)],
                                              (x - times[np.searchsorted(times, x, side='right') - 1]) / dt) for x in ts], index=ts)
            arm = {'none': None, 'zero': np.zeros(3), 'arm': np.array([1.5, -0.7, 0.4])}[s['lever']]
            if s['cls'] == 'Position':
                sdm = 2.0
                data = truth[['lat', 'lon', 'alt']].copy()
                data['lat'] += rng.randn(len(ts)) * sdm / 111e3
                data['lon'] += rng.randn(len(ts)) * sdm / 111e3
                data['alt'] += rng.randn(len(ts)) * sdm
                m = measurements.Position(data, sdm, arm)
            elif s['cls'] == 'NedVelocity':
                sdm = 0.1
                data = truth[['VN', 'VE', 'VD']] + rng.randn(len(ts), 3) * sdm
                m = measurements.NedVelocity(data, sdm, arm)
            else:
                sdm = 0.1
                Cs = np.asarray(ROT.dcm_from_rph(truth[EC.RPH].values.astype(float)), float)
                vb = np.einsum('nji,nj->ni', Cs, truth[['VN', 'VE', 'VD']].values.astype(float)) + rng.randn(len(ts), 3) * sdm
                data = pd.DataFrame(vb, index=ts, columns=['VX', 'VY', 'VZ'])
                m = measurements.BodyVelocity(data, sdm)
            self.measurements.append(m)
            self.sample_times[s['cls']] = ts


def assemble_and_solve(sc, res):
    """Own assembly of the linear system on the filter's grid from public pieces + one-shot solution."""
    from pyins.error_model import InsErrorModel
    case = sc.case
    wa = case['with_altitude']
    em = InsErrorModel(wa)
    gm, am = sc.gm, sc.am
    ni, ng, na = em.n_states, gm.n_states, am.n_states
    n = ni + ng + na
    grid = np.asarray(res.trajectory_sd.index, float)
    times = sc.times
    tn, tc, inc = sc.nominal, sc.computed, sc.inc
    sds = sc.sds
    D = np.diag([sds[0] ** 2] * 3 + [sds[1] ** 2] * 3 + [sds[2] ** 2] * 2 + [sds[3] ** 2])
    Tio = em.transform_to_internal(tn.iloc[0])
    P0 = np.zeros((n, n))
    P0[:ni, :ni] = Tio @ D @ Tio.T
    P0[ni:ni + ng, ni:ni + ng] = gm.P
    P0[ni + ng:, ni + ng:] = am.P
    Phis, Qds = [], []
    inc_t = np.asarray(inc.index, float)
    for k in range(len(grid) - 1):
        a = tn.loc[grid[k]]
        b = tn.loc[grid[k + 1]]
        dtk = grid[k + 1] - grid[k]
        pm = interp_pose(a, b, 0.5)
        Fi, Bg, Ba = em.system_matrices(pm)
        sel = (inc_t > grid[k]) & (inc_t <= grid[k + 1])
        gavg = inc[gen.INC_COLS[1:4]].values[sel].sum(axis=0) / dtk
        aavg = inc[gen.INC_COLS[4:7]].values[sel].sum(axis=0) / dtk
        Hg = gm.output_matrix(gavg)
        Ha = am.output_matrix(aavg)
        F = np.zeros((n, n))
        F[:ni, :ni] = Fi
        F[:ni, ni:ni + ng] = Bg @ Hg
        F[:ni, ni + ng:] = Ba @ Ha
        F[ni:ni + ng, ni:ni + ng] = gm.F
        F[ni + ng:, ni + ng:] = am.F
        Qc = np.zeros((n, n))
        Gi = np.hstack([Bg @ gm.J * gm.v, Ba @ am.J * am.v])
        Qc[:ni, :ni] = Gi @ Gi.T
        Gg = gm.G * gm.q
        Qc[ni:ni + ng, ni:ni + ng] = Gg @ Gg.T
        Ga = am.G * am.q
        Qc[ni + ng:, ni + ng:] = Ga @ Ga.T
        Phi, Qd = LG.discretise_ld(F, Qc, dtk)
        Phis.append(np.asarray(Phi, float))
        Qds.append(np.asarray(Qd, float))
    allt = np.unique(np.concatenate([np.asarray(m.data.index, float) for m in sc.measurements]))
    allt = allt[(allt >= times[0]) & (allt < times[-1])]
    meas, tags = [], []
    unattached = 0
    for tm in allt:
        i = np.searchsorted(times, tm, side='right') - 1
        node = np.searchsorted(grid, times[i])
        if node >= len(grid) or grid[node] != times[i]:
            unattached += 1
            continue
        pva = interp_pose(tc.iloc[i], tc.iloc[i + 1], (tm - times[i]) / (times[i + 1] - times[i]))
        # body rates of the interval holding the epoch (increments are always supplied here): the measurement model of
        # NedVelocity with a lever arm needs them (repo fix fca2907: the feedforward filter used to omit them)
        inside = (inc_t > times[i]) & (inc_t <= times[i + 1])
        pva = pd.concat([pva, pd.Series(inc[gen.INC_COLS[1:4]].values[inside].sum(axis=0) / inc['dt'].values[inside].sum(),
                                        index=['rate_x', 'rate_y', 'rate_z'])])
        for m in sc.measurements:
            r = m.compute_matrices(tm, pva, em)
            if r is not None:
                z, H, R = r
                Hf = np.zeros((len(z), n))
                Hf[:, :ni] = H
                meas.append((int(node), np.asarray(z, float), Hf, np.asarray(R, float)))
                tags.append((type(m).__name__, len(z)))
    xs, Ps, nu, condS = LG.batch_estimate(P0, Phis, Qds, meas)
    return dict(xs=xs, Ps=Ps, nu=nu, condS=condS, meas=meas, tags=tags, grid=grid, em=em, ni=ni, ng=ng, unattached=unattached)


def run_estimator(case, ctx):
    from pyins import filters
    sc = Scenario(case)
    wa = case['with_altitude']
    snap = (sc.nominal.copy(), sc.computed.copy(), sc.inc.copy())
    res = ctx.sut(filters.run_feedforward_filter, sc.nominal, sc.computed, *sc.sds, sc.gm, sc.am, sc.measurements,
                  increments=sc.inc, time_step=case['time_step'], with_altitude=wa)
    ctx.check(sc.nominal.equals(snap[0]) and sc.computed.equals(snap[1]) and sc.inc.equals(snap[2]), 'input_modified', '')
    o = assemble_and_solve(sc, res)
    ctx.label('mode=3D' if wa else 'mode=2D', f"sensors={len(case['sensors'])}", f"n_states={o['xs'].shape[1]}",
              'step=' + ('<0.5' if case['time_step'] < 0.5 else '<2' if case['time_step'] < 2 else '>=2'),
              'sm_states' if (sc.gm.scale_misal_modelled or sc.am.scale_misal_modelled) else 'no_sm',
              'walk_states' if (sc.gm.n_noises or sc.am.n_noises) else 'no_walk',
              'shared_epoch' if sc.shared else 'no_shared_epoch',
              'rows_sparser_than_step' if 1.0 / case['rate_hz'] > case['time_step'] else 'rows_denser_than_step',
              f"increments_per_row={case.get('sub_inc', 1)}")
    if o['unattached']:
        ctx.inconclusive['sample_node_not_on_grid'] += 1
        return
    if o['condS'] > 1e10:
        ctx.inconclusive['cond_cov_z>1e10'] += 1
        return
    em, ni, ng = o['em'], o['ni'], o['ng']
    grid = o['grid']
    xs, Ps = o['xs'], o['Ps']
    # the stamps are float64 numbers: at a Unix-epoch origin (1.7e9 s) neighbouring stamps are 2.4e-7 s apart, so an interval of
    # the grid is only defined to ulp(t)/dt relative, and two exact estimators that form their time differences in another order
    # differ by that much (measured: 2.3e-7 relative at 1.7e9 with 20 Hz rows, 5e-11 at small origins)
    t_abs = float(np.abs(sc.times).max())
    dt_min = float(np.diff(np.asarray(sc.inc.index, float)).min())
    slack = 1e-6 + 100 * 2.2e-16 * o['condS'] + 16 * np.spacing(t_abs) / dt_min
    ctx.label('t0=' + ('0' if case.get('t0', 0.0) == 0 else 'unix_epoch' if abs(case.get('t0', 0.0)) > 1e9 else 'small'))
    tn = sc.nominal.loc[grid]
    tcg = sc.computed.loc[grid]
    Tm = em.transform_to_output(tn)
    sd_o = np.sqrt(np.maximum(np.einsum('kij,kjl,kil->ki', Tm, Ps[:, :ni, :ni], Tm), 0))
    sd_f = res.trajectory_sd.values.astype(float)
    ctx.check(sd_f.shape == sd_o.shape, 'shape:trajectory_sd', f'{sd_f.shape} {sd_o.shape}')
    ref_scale = np.maximum(sd_o, 1e-300)
    mpos = sd_o > 1e-12 * (1 + sd_o.max())
    r_sd = np.abs(sd_f[mpos] / sd_o[mpos] - 1).max() if mpos.any() else 0.0
    ctx.stat('trajectory_sd', r_sd / slack)
    ctx.check(r_sd <= slack, 'trajectory_sd', lambda: f'case={case}: relative sd difference {r_sd:.3e} tol {slack:.3e}')
    ctx.check(np.all(np.abs(sd_f[~mpos]) <= 1e-9 * (1 + sd_o.max())), 'trajectory_sd_zero_entries', '')
    # sensor estimates and their sd
    for name, lo, hi, est, sdt, model in (('gyro', ni, ni + ng, res.gyro, res.gyro_sd, sc.gm), ('accel', ni + ng, xs.shape[1], res.accel, res.accel_sd, sc.am)):
        if hi == lo:
            ctx.check(est.shape[1] == 0 and sdt.shape[1] == 0, f'shape:{name}', '')
            continue
        ctx.check(list(est.columns) == model.states and list(sdt.columns) == model.states, f'columns:{name}', '')
        so = np.sqrt(np.maximum(np.einsum('kii->ki', Ps[:, lo:hi, lo:hi]), 0))
        rs = np.abs(sdt.values / so - 1).max()
        # rounding of an estimate is relative to its own size, not to its sigma (an estimate of 100 sigma is common with a vague
        # prior): the unit is sigma + |estimate| (thorough-tier false alarm, DESIGN 9.3)
        re = (np.abs(est.values - xs[:, lo:hi]) / (so + np.abs(xs[:, lo:hi]))).max()
        ctx.stat(f'{name}_sd', rs / slack)
        ctx.stat(f'{name}_estimate', re / slack)
        ctx.check(rs <= slack, f'{name}_sd', lambda: f'case={case}: {name} sd relative difference {rs:.3e} tol {slack:.3e}')
        ctx.check(re <= slack, f'{name}_estimate', lambda: f'case={case}: {name} estimate differs by {re:.3e} sigma tol {slack:.3e}')
    # compensated trajectory: computed minus estimated error, applied with own geodesy at the nominal point
    e_o = np.einsum('kij,kj->ki', Tm, xs[:, :ni])
    rm, rt = W.radii(tn['lat'].values, tn['alt'].values)
    exp = tcg[TRAJ].values.astype(float).copy()
    exp[:, 0] -= e_o[:, 0] / rm / W.D2R
    exp[:, 1] -= e_o[:, 1] / (rt * np.cos(tn['lat'].values * W.D2R)) / W.D2R
    exp[:, 2] += e_o[:, 2]
    exp[:, 3:9] -= e_o[:, 3:9]
    got = res.trajectory[TRAJ].values.astype(float)
    diff = got - exp
    diff[:, 0] *= W.D2R * rm
    diff[:, 1] *= W.D2R * rt * np.cos(tn['lat'].values * W.D2R)
    # unit: sigma + |T||x| (the size of the estimated error that is subtracted, before any cancellation inside T x)
    mag = np.einsum('kij,kj->ki', np.abs(Tm), np.abs(xs[:, :ni]))
    sdn = np.where(mpos, sd_o + mag, np.inf)
    r_tr = (np.abs(diff) / sdn).max()
    r_abs = np.abs(diff[~mpos]).max() if (~mpos).any() else 0.0
    ctx.stat('compensated_trajectory', r_tr / slack)
    k = np.unravel_index(np.argmax(np.abs(diff) / sdn), diff.shape)
    ctx.check(r_tr <= slack, 'compensated_trajectory',
              lambda: f'case={case}: compensated {TRAJ[k[1]]} at t={grid[k[0]]} differs from the estimator by {r_tr:.3e} (sigma + |estimated error|) (tol {slack:.3e})')
    ctx.check(r_abs <= 1e-6, 'compensated_trajectory_unmodelled_components', lambda: f'{r_abs:.3e}')
    # innovations in processing order
    pos = 0
    per = {}
    for (cls, k) in o['tags']:
        per.setdefault(cls, []).append(o['nu'][pos:pos + k])
        pos += k
    for cls, ts in sc.sample_times.items():
        inn = res.innovations[cls].values.astype(float)
        ref = np.array(per.get(cls, [])).reshape(len(per.get(cls, [])), -1)
        ctx.check(inn.shape == ref.shape or (inn.size == 0 and ref.size == 0), f'innovation_shape:{cls}', lambda: f'{inn.shape} vs {ref.shape}')
        if ref.size:
            rn = np.abs(inn - ref).max()
            ctx.stat('innovations', rn / (slack * (1 + np.abs(ref).max())))
            ctx.check(rn <= slack * (1 + np.abs(ref).max()), f'innovations:{cls}',
                      lambda: f'case={case}: normalised innovations of {cls} differ by {rn:.3e} (tol {slack * (1 + np.abs(ref).max()):.3e})\nfilter {inn.tolist()}\nestimator {ref.tolist()}')
    n_corr_nodes = len({m[0] for m in o['meas']})
    ctx.mark_nontrivial(len(case['sensors']) >= 2 and (sc.gm.n_noises + sc.am.n_noises > 0 or sc.gm.scale_misal_modelled or sc.am.scale_misal_modelled)
                        and n_corr_nodes >= 5)


CLAUSES = [
    Clause('estimator', case_strategy, run_estimator, quick=(64, 8), thorough=(2400, 16), shrink_quick=False),
]


def selftest():
    LG.selftest()
    LG.selftest_batch()


def warmup():
    from . import c02
    c02.warmup()
