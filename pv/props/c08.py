"""C08 - discretised process matrices are the exact transition and noise integral.

Oracle: power series of the defining ODEs  Phi' = F Phi,  Qd' = F Qd + Qd F' + Q  evaluated
at dt/2^j and doubled (pv/ref/lingauss.py), in longdouble for every case and in 60-digit
mpmath for small n and a sample of the larger ones (the two references must agree).
"""
import numpy as np
from hypothesis import strategies as st

from ..core import Clause
from ..ref import lingauss as lg
from ..tol import EPS, bits_equal

PROPERTY = 'C08'
RULE = ('Cases: n 1..24; F from classes {zero, nilpotent chain, stable, unstable, skew, stiff '
        'mix, navigation-like 9+6 state INS error dynamics built independently}; |F|dt<=8 '
        'except navigation-like; Q=G diag(q^2) G^T PSD incl. zero / rank-one / singular / '
        'full, scales 1e-12..1e4; dt from {0, 1e-6..10}; partitions of dt into 1..8 '
        'sub-steps incl. zero-length pieces. Oracle: ODE power series with doubling in '
        'longdouble (+mpmath at 60 digits for n<=8 and a sample). Non-trivial = F and Q do '
        'not commute, Q is not a multiple of I and dt>0; distinct by SHA-1 of the case.')
ASSUMPTIONS = ['tolerance c*eps*n*(1+log2 scaling)*|exp(|F|dt)|^2*max(|Q|dt, tiny); c fixed, calibrated',
               'x87 longdouble (64-bit mantissa) available; mpmath 60 digits']

F_CLASSES = ['zero', 'nilpotent', 'stable', 'unstable', 'skew', 'stiff', 'navlike', 'diagonal', 'blockdiag', 'symmetric']
Q_CLASSES = ['zero', 'rank1', 'singular', 'full', 'diag', 'identity', 'wide']
DT_CHOICES = [0.0, 1e-6, 1e-3, 0.01, 0.1, 0.5, 1.0, 2.0, 5.0, 10.0]


def case_strategy():
    return st.fixed_dictionaries({
        'n': st.integers(1, 24),
        'fclass': st.sampled_from(F_CLASSES),
        'qclass': st.sampled_from(Q_CLASSES),
        'qexp': st.integers(-12, 4),
        'dt': st.one_of(st.sampled_from(DT_CHOICES), st.floats(1e-6, 10.0)),
        'fnorm': st.floats(0.01, 8.0),
        'store': st.sampled_from(['float', 'float', 'float', 'int_F', 'int_F_int_Q', 'fortran']),
        'sub': st.integers(0, 2 ** 31 - 1),
    })


def part_strategy():
    return st.fixed_dictionaries({
        'base': case_strategy(),
        'cuts': st.lists(st.floats(0.0, 1.0), min_size=0, max_size=7),
    })


def _skew(v):
    return np.array([[0, -v[2], v[1]], [v[2], 0, -v[0]], [-v[1], v[0], 0.0]])


def build(case):
    rng = np.random.RandomState(case['sub'])
    n = case['n']
    dt = float(case['dt'])
    fc = case['fclass']
    target = case['fnorm']      # desired |F|_inf * dt (ignored for dt == 0 / navlike)
    if fc == 'navlike':
        n = max(n, 9)
        F = np.zeros((n, n))
        q, r = np.linalg.qr(rng.randn(3, 3))
        C = q * np.sign(np.diag(r))
        g = 9.8
        Rr = 6.4e6
        V = rng.uniform(-300, 300, 3)
        om = rng.uniform(-1, 1, 3) * 7.3e-5
        F[0:3, 3:6] = np.eye(3)
        F[0:3, 6:9] = _skew(V)
        F[3:6, 3:6] = -_skew(2 * om + V / Rr)
        F[3:6, 6:9] = -_skew([0, 0, g])
        F[5, 2] = 2 * g / Rr
        F[6:9, 0:3] = _skew(om) / Rr
        F[6:9, 3:6] = np.array([[0, 1, 0], [-1, 0, 0], [0, -0.5, 0]]) / Rr
        F[6:9, 6:9] = -_skew(om + V / Rr)
        k = 9
        if n >= 12:
            F[6:9, 9:12] = -C
            F[3:6, 9:12] = _skew(V) @ C
            k = 12
        if n >= 15:
            F[3:6, 12:15] = C
            k = 15
        if n > k:   # scale/misalignment-like columns fed by readings
            F[3:6, k:n] = rng.randn(3, n - k) * 10
    else:
        if fc == 'zero':
            F = np.zeros((n, n))
        elif fc == 'nilpotent':
            F = np.triu(rng.randn(n, n), 1)
        elif fc == 'stable':
            A = rng.randn(n, n)
            F = A - (np.abs(np.linalg.eigvals(A).real).max() + rng.uniform(0.1, 2)) * np.eye(n)
        elif fc == 'unstable':
            A = rng.randn(n, n)
            F = A + rng.uniform(0.1, 2) * np.eye(n)
        elif fc == 'skew':
            A = rng.randn(n, n)
            F = A - A.T
        elif fc == 'stiff':
            A = rng.randn(n, n)
            s = 10.0 ** rng.uniform(-3, 0, n)
            F = (A * s[:, None]) - np.diag(10.0 ** rng.uniform(-3, 0, n))
        elif fc == 'diagonal':       # independent first-order Gauss-Markov / random-walk states: distinct, repeated and zero rates
            d = -10.0 ** rng.uniform(-2, 0, n) * np.where(rng.rand(n) < 0.8, 1.0, -1.0)
            d[rng.rand(n) < 0.2] = 0.0
            if n > 2 and rng.rand() < 0.5:
                d[1] = d[0]
            F = np.diag(d)
        elif fc == 'symmetric':      # F = F^T, not diagonal: diffusion / consensus couplings (graph Laplacians: singular), symmetric
            v = rng.randint(4)       # matrices with zero eigenvalues, with +-lambda pairs, negative definite ones
            if v == 0 and n >= 2:    # chain Laplacian
                F = -(2 * np.eye(n) - np.eye(n, k=1) - np.eye(n, k=-1))
                F[0, 0] = F[-1, -1] = -1.0
            elif v == 1 and n >= 3:  # ring Laplacian
                F = -(2 * np.eye(n) - np.eye(n, k=1) - np.eye(n, k=-1))
                F[0, -1] = F[-1, 0] = 1.0
            else:
                U = np.linalg.qr(rng.randn(n, n))[0]
                lam = -10.0 ** rng.uniform(-2, 0, n)
                if v == 2:           # zero eigenvalues and a +-lambda pair
                    lam[rng.permutation(n)[:max(1, n // 3)]] = 0.0
                    if n >= 2:
                        lam[1] = -lam[0]
                F = (U * lam) @ U.T
                F = 0.5 * (F + F.T)
        elif fc == 'blockdiag':      # 2x2 oscillator / 1x1 decay blocks
            F = np.zeros((n, n))
            i = 0
            while i < n:
                if i + 1 < n and rng.rand() < 0.6:
                    w, z = rng.uniform(0.1, 2), rng.uniform(0, 0.5)
                    F[i:i + 2, i:i + 2] = [[0, 1], [-w * w, -2 * z * w]]
                    i += 2
                else:
                    F[i, i] = -rng.uniform(0, 1)
                    i += 1
        nrm = np.abs(F).sum(axis=1).max()
        if nrm > 0 and dt > 0:
            F = F * (target / (nrm * dt))
        elif nrm > 0:
            F = F * (target / nrm)
    qc = case['qclass']
    if qc == 'zero':
        Q = np.zeros((n, n))
    elif qc == 'identity':
        Q = np.eye(n)
    elif qc == 'diag':
        Q = np.diag(rng.uniform(0, 1, n) ** 2)
    elif qc == 'wide':           # positive definite with noise standard deviations spread over up to six decades (angle random walk in
        sd = 10.0 ** rng.uniform(-6, 0, n)     # rad/sqrt(s) next to position noise in m/sqrt(s)); diagonal or correlated
        sd[0] = 1.0
        if n > 1:
            sd[-1] = 10.0 ** -rng.uniform(4, 6)
        if rng.rand() < 0.5:
            Q = np.diag(sd ** 2)
        else:
            A = rng.randn(n, n)
            Cc = A @ A.T + n * np.eye(n)
            dC = np.sqrt(np.diag(Cc))
            Q = (sd[:, None] * (Cc / dC[:, None] / dC[None, :])) * sd[None, :]
    else:
        k = {'rank1': 1, 'singular': max(1, n // 2), 'full': n}[qc]
        G = rng.randn(n, k)
        if qc == 'singular':
            G[rng.permutation(n)[: max(0, n - k)]] = 0.0   # noise enters a subset of states
        Q = G @ np.diag(rng.uniform(0.1, 1, k) ** 2) @ G.T
    Q = 0.5 * (Q + Q.T) * 10.0 ** case['qexp']
    return F, Q, dt


def stored(case, F, Q):
    """The same matrices in another storage form (integer dtype where the values allow it, Fortran order; the parameters are documented as ndarray, so no lists):
    the result must not depend on it. Integer-valued F are the kinematic-chain matrices users type in by hand."""
    st_ = case.get('store', 'float')
    if st_ in ('int_F', 'int_F_int_Q') and case['fclass'] in ('zero', 'nilpotent', 'skew'):
        Fi = np.round(F * 0 + np.sign(F) * np.ceil(np.abs(F) - 1e-12)).astype(np.int64) if case['fclass'] != 'zero' else F.astype(np.int64)
        Fi = np.clip(Fi, -3, 3)
        Qs = Q
        if st_ == 'int_F_int_Q':
            Qs = np.round(np.clip(Q / max(np.abs(Q).max(), 1e-300) * 3, -3, 3)).astype(np.int64)
            Qs = Qs @ Qs.T
        return Fi, Qs, Fi.astype(float), np.asarray(Qs, float), 'int'
    if st_ == 'fortran':
        return np.asfortranarray(F), np.asfortranarray(Q), F, Q, 'fortran'
    return F, Q, F, Q, 'float'


def tolerances(F, Q, dt, c=64.0):
    n = len(F)
    E, _ = lg.discretise_ld(np.abs(F), np.zeros((n, n)), dt)
    nE = float(np.abs(np.asarray(E, float)).sum(axis=1).max())
    nF = float(np.abs(F).sum(axis=1).max())
    nQ = float(np.abs(Q).sum(axis=1).max())
    sq = 1.0 + np.log2(max(1.0, (nF + nQ) * dt))      # squarings in scaling-and-squaring
    # scipy's expm has ~1e-12 relative accuracy on 2x2 / triangular inputs (explicit formulas
    # with cancellation; measured 8.5e-13): REL is a flat relative allowance above rounding.
    # ABS: expm is norm-wise accurate, so a block much smaller than |exp(H dt)| (Q dt << 1
    # inside Van Loan's matrix) carries an absolute error ~1e-3 eps |exp|^2 (measured 1.7e-4).
    REL = 5e-12
    tol_phi = (c * EPS * n * sq + REL) * nE
    tol_q = (c * EPS * n * sq + REL) * nE ** 2 * nQ * dt + 0.05 * EPS * n * nE ** 2 * (nQ > 0)
    return tol_phi, tol_q, nE


def _labels(ctx, case, F, Q, dt):
    n = len(F)
    ctx.label(f"F={case['fclass']}", f"Q={case['qclass']}",
              f"n={'1-3' if n <= 3 else '4-12' if n <= 12 else '13-24'}",
              'dt=0' if dt == 0 else f"dt={'<0.1' if dt < 0.1 else '<=1' if dt <= 1 else '>1'}")


def noncommuting(F, Q):
    n = len(F)
    comm = np.abs(F @ Q - Q @ F).max()
    notI = np.abs(Q - np.eye(n) * Q[0, 0]).max() > 0
    return comm > 1e-9 * max(np.abs(F).max() * np.abs(Q).max(), 1e-300) and notI


def run_reference(case, ctx):
    from pyins import kalman
    F, Q, dt = build(case)
    Fs, Qs, F, Q, how = stored(case, F, Q)          # F, Q: the float values the reference uses; Fs, Qs: what is passed
    if how == 'int' and dt > 0:
        dt = min(dt, 4.0 / max(np.abs(F).sum(axis=1).max(), 1e-9))      # keep |F| dt <= 4 for hand-typed integer matrices
    n = len(F)
    _labels(ctx, case, F, Q, dt)
    ctx.label(f'store={how}')
    snapF, snapQ = np.array(Fs, copy=True), np.array(Qs, copy=True)
    # the step in the forms a caller has it in: a Python int for whole seconds (dt = 0, 1, 2, 5, 10 are in the grid), a
    # numpy scalar (difference of two stamps) or a 0-d array; the value is the same
    dt_arg = dt
    form = case['sub'] % 4
    if float(dt).is_integer() and form in (1, 2):
        dt_arg = int(dt) if form == 1 else np.int64(dt)
    elif form == 3:
        dt_arg = np.float64(dt) if case['sub'] % 8 == 3 else np.asarray(dt)
    ctx.label('dt_form=' + type(dt_arg).__name__)
    Phi, Qd = ctx.sut(kalman.compute_process_matrices, Fs, Qs, dt_arg)
    ctx.check(np.array_equal(np.asarray(Fs), snapF) and np.array_equal(np.asarray(Qs), snapQ), 'input_modified', 'F or Q changed')
    ctx.check(Phi.shape == (n, n) and Qd.shape == (n, n), 'shape', f'{Phi.shape} {Qd.shape}')
    if dt == 0:
        ctx.check(np.array_equal(Phi, np.eye(n)), 'zero_step_phi', 'Phi != I at dt = 0')
        ctx.check(np.all(Qd == 0), 'zero_step_qd', 'Qd != 0 at dt = 0')
        return
    Pr, Qr = lg.discretise_ld(F, Q, dt)
    use_mp = n <= 8 or case['sub'] % 10 == 0
    if use_mp and n <= 16:
        Pm, Qm = lg.discretise_mp(F, Q, dt)
        sP = max(np.abs(Pm).max(), 1e-300)
        sQ = max(np.abs(Qm).max(), 1e-300)
        if (np.abs(np.asarray(Pr, float) - Pm).max() > 1e-13 * sP * (1 + np.log2(1 + n)) * 10 or
                np.abs(np.asarray(Qr, float) - Qm).max() > 1e-13 * sQ * 10 + 1e-300):
            tol_phi, tol_q, nE = tolerances(F, Q, dt)
            # longdouble reference lost accuracy (huge growth); fall back to mp
            if (np.abs(np.asarray(Pr, float) - Pm).max() > 0.01 * tol_phi or
                    np.abs(np.asarray(Qr, float) - Qm).max() > 0.01 * tol_q + 1e-300):
                raise AssertionError('longdouble and mpmath references disagree')
        Pr, Qr = Pm, Qm
        ctx.label('mp_reference')
    Pr = np.asarray(Pr, float)
    Qr = np.asarray(Qr, float)
    tol_phi, tol_q, nE = tolerances(F, Q, dt)
    eP = np.abs(Phi - Pr).max()
    eQ = np.abs(Qd - Qr).max()
    ctx.stat('phi', eP / tol_phi)
    if tol_q > 0:
        ctx.stat('qd', eQ / tol_q)
    ctx.check(eP <= tol_phi, 'transition', lambda: f'|Phi-ref|={eP:.3e} tol={tol_phi:.3e}')
    ctx.check(eQ <= tol_q, 'noise_integral', lambda: f'|Qd-ref|={eQ:.3e} tol={tol_q:.3e}')
    asym = np.abs(Qd - Qd.T).max()
    ctx.check(asym <= tol_q, 'asymmetric', lambda: f'|Qd-Qd^T|={asym:.3e} tol={tol_q:.3e}')
    emin = np.linalg.eigvalsh(0.5 * (Qd + Qd.T))[0]
    ctx.check(emin >= -tol_q * n, 'not_psd', lambda: f'eigmin(Qd)={emin:.3e} tol={tol_q * n:.3e}')
    ctx.mark_nontrivial(noncommuting(F, Q) and tol_q < 1e-6 * max(np.abs(Qr).max(), 1e-300))


def run_composition(case, ctx):
    from pyins import kalman
    base = case['base']
    F, Q, dt = build(base)
    n = len(F)
    _labels(ctx, base, F, Q, dt)
    fr = sorted(case['cuts'])
    edges = [0.0] + [f * dt for f in fr] + [dt]
    pieces = [edges[i + 1] - edges[i] for i in range(len(edges) - 1)]
    # make the pieces sum to dt exactly as floats where possible: last piece absorbs rounding
    ctx.label(f'pieces={len(pieces)}', 'has_zero_piece' if any(p == 0 for p in pieces) else 'no_zero_piece')
    total = float(np.sum(pieces))
    Phi_all, Qd_all = ctx.sut(kalman.compute_process_matrices, F, Q, total)
    tol_phi, tol_q, nE = tolerances(F, Q, total)
    Phi = np.eye(n)
    Qd = np.zeros((n, n))
    tp, tq = 0.0, 0.0
    for p in pieces:
        Ph, Qh = ctx.sut(kalman.compute_process_matrices, F, Q, p)
        a, b, e = tolerances(F, Q, p)
        Qd = Ph @ Qd @ Ph.T + Qh
        Phi = Ph @ Phi
        tp += a * nE
        tq += b * nE ** 2 + 0 * a
    tp += tol_phi
    tq += tol_q + 2 * tp * nE * float(np.abs(Q).sum(axis=1).max()) * total
    eP = np.abs(Phi - Phi_all).max()
    eQ = np.abs(Qd - Qd_all).max()
    ctx.stat('comp_phi', eP / tp)
    if tq > 0:
        ctx.stat('comp_qd', eQ / tq)
    ctx.check(eP <= tp, 'composition_phi', lambda: f'|prod Phi_i - Phi|={eP:.3e} tol={tp:.3e} pieces={pieces}')
    ctx.check(eQ <= tq, 'composition_qd', lambda: f'|fold Qd_i - Qd|={eQ:.3e} tol={tq:.3e} pieces={pieces}')
    # covariance propagation is partition independent for a random PSD P
    rng = np.random.RandomState(base['sub'] ^ 0x5bd1e995)
    A = rng.randn(n, n)
    P0 = A @ A.T
    P_one = Phi_all @ P0 @ Phi_all.T + Qd_all
    P_seq = P0
    for p in pieces:
        Ph, Qh = kalman.compute_process_matrices(F, Q, p)
        P_seq = Ph @ P_seq @ Ph.T + Qh
    nP = float(np.abs(P0).sum(axis=1).max())
    tP = tq + 4 * tp * nE * nP + 64 * EPS * n * nE ** 2 * nP * len(pieces)
    eC = np.abs(P_seq - P_one).max()
    ctx.stat('comp_cov', eC / tP)
    ctx.check(eC <= tP, 'partition_dependent_covariance', lambda: f'{eC:.3e} tol={tP:.3e} pieces={pieces}')
    ctx.mark_nontrivial(len(pieces) >= 2 and dt > 0 and noncommuting(F, Q)
                        and tq < 1e-6 * max(np.abs(Qd_all).max(), 1e-300))


def history_strategy():
    op = st.tuples(st.sampled_from(['same', 'mutate_F', 'mutate_Q', 'scale_F', 'new_dt', 'old_dt', 'fresh']), st.integers(0, 10 ** 6))
    return st.fixed_dictionaries({'base': case_strategy(), 'ops': st.lists(op, min_size=2, max_size=8)})


def run_history(case, ctx):
    """A sequence of calls on the SAME F / Q buffers, changed in place between calls (how a filter loop with preallocated
    matrices uses the function): every result must be the exact answer for the values passed at that call, whatever was
    passed before (no result may depend on earlier calls), judged against the own reference."""
    from pyins import kalman
    base = dict(case['base'])
    base['n'] = min(base['n'], 8)
    base['store'] = 'float'
    F, Q, dt = build(base)
    if dt == 0:
        dt = 0.5
    n = len(F)
    _labels(ctx, base, F, Q, dt)
    dts = [dt]

    def judge(tag):
        Phi, Qd = ctx.sut(kalman.compute_process_matrices, F, Q, dts[-1])
        Pr, Qr = lg.discretise_ld(F, Q, dts[-1])
        tol_phi, tol_q, nE = tolerances(F, Q, dts[-1])
        eP, eQ = np.abs(Phi - np.asarray(Pr, float)).max(), np.abs(Qd - np.asarray(Qr, float)).max()
        ctx.stat('history_phi', eP / tol_phi)
        ctx.check(eP <= tol_phi, 'history_transition', lambda: f'after {tag}: |Phi-ref|={eP:.3e} tol={tol_phi:.3e} (result depends on earlier calls?)')
        ctx.check(eQ <= tol_q + 1e-300, 'history_noise_integral', lambda: f'after {tag}: |Qd-ref|={eQ:.3e} tol={tol_q:.3e} (result depends on earlier calls?)')
        return Phi, Qd

    prev = judge('first call')
    kinds = []
    for kind, sub in case['ops']:
        rng = np.random.RandomState(sub)
        i, j = rng.randint(n), rng.randint(n)
        if kind == 'mutate_F':
            F[i, j] += rng.choice([-1, 1]) * rng.uniform(0.05, 0.5) / dts[-1] / 4
        elif kind == 'scale_F':
            F *= rng.choice([0.5, 2.0]) if np.abs(F).sum(axis=1).max() * dts[-1] < 4 else 0.5
        elif kind == 'mutate_Q':
            v = rng.randn(n) * np.sqrt(max(np.abs(Q).max(), 10.0 ** base['qexp']))
            Q += np.outer(v, v)                 # stays symmetric PSD
        elif kind == 'new_dt':
            dts.append(float(dts[-1] * rng.choice([0.5, 0.25, 1.5])))
        elif kind == 'old_dt':
            dts.append(dts[rng.randint(len(dts))])
        elif kind == 'fresh':
            F, Q = F.copy(), Q.copy()
        out = judge(kind)
        if kind == 'same':
            ctx.check(bits_equal(out[0], prev[0]) and bits_equal(out[1], prev[1]), 'repeat_differs', 'the same call twice gives different bits')
        prev = out
        kinds.append(kind)
    ctx.label(f'ops={len(kinds)}')
    ctx.mark_nontrivial(any(k.startswith('mutate') or k == 'scale_F' for k in kinds) and noncommuting(F, Q))


CLAUSES = [
    Clause('history', history_strategy, run_history, quick=(160, 8), thorough=(6000, 16)),
    Clause('reference', case_strategy, run_reference, quick=(400, 8), thorough=(12000, 16)),
    Clause('composition', part_strategy, run_composition, quick=(240, 8), thorough=(8000, 16)),
]


def selftest():
    lg.selftest()
