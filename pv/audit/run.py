"""Sensitivity audit: apply one small source mutation to a scratch copy of /repo/pyins and
run the registered quick check of the targeted property against it (VERIF_REPO).

    python -m pv.audit.run [ID-prefix ...]       e.g.  python -m pv.audit.run C07 C08-a

Not a registered check; used while building to make sure every check fails on breakage.
"""
import json
import os
import shutil
import subprocess
import sys
import tempfile
import time

from .mutants import MUTANTS

VERIF = os.path.dirname(os.path.dirname(os.path.dirname(os.path.abspath(__file__))))


def run_one(mut, tier='quick', extra_env=None):
    mid, prop, fname, old, new = mut[:5]
    scratch = tempfile.mkdtemp(prefix='pv_audit_')
    try:
        shutil.copytree('/repo/pyins', os.path.join(scratch, 'pyins'),
                        ignore=shutil.ignore_patterns('__pycache__'))
        path = os.path.join(scratch, 'pyins', fname)
        src = open(path).read()
        olds = old if isinstance(old, (list, tuple)) else [old]
        news = new if isinstance(new, (list, tuple)) else [new]
        for o, nw in zip(olds, news):
            if src.count(o) != 1:
                return mid, prop, 'PATCH-FAILED', f'{src.count(o)} matches', 0.0
            src = src.replace(o, nw)
        open(path, 'w').write(src)
        env = dict(os.environ, VERIF_REPO=scratch)
        env.update(extra_env or {})
        t0 = time.time()
        p = subprocess.run([os.path.join(VERIF, 'check'), prop, tier], env=env,
                           capture_output=True, text=True, cwd=VERIF)
        dt = time.time() - t0
        viol = [l for l in p.stdout.splitlines() if l.startswith('violation ')]
        status = {0: 'MISSED', 1: 'caught', 2: 'HARNESS-ERROR'}.get(p.returncode, str(p.returncode))
        detail = viol[0][:160] if viol else p.stdout.strip().splitlines()[-1][:160] if p.stdout.strip() else p.stderr[-300:]
        return mid, prop, status, detail, dt
    finally:
        shutil.rmtree(scratch, ignore_errors=True)


def main(argv):
    sel = [m for m in MUTANTS if not argv or any(m[0].startswith(a) for a in argv)]
    from concurrent.futures import ThreadPoolExecutor
    par = int(os.environ.get('AUDIT_PAR', '2'))
    ev_backup = {}
    for m in sel:
        p = os.path.join(VERIF, 'evidence', f'{m[1]}.json')
        if os.path.exists(p) and m[1] not in ev_backup:
            ev_backup[m[1]] = open(p).read()
    try:
        with ThreadPoolExecutor(par) as ex:
            for r in ex.map(run_one, sel):
                print('%-10s %-4s %-13s %5.0fs  %s' % (r[0], r[1], r[2], r[4], r[3]), flush=True)
    finally:
        for prop, txt in ev_backup.items():
            open(os.path.join(VERIF, 'evidence', f'{prop}.json'), 'w').write(txt)


if __name__ == '__main__':
    main(sys.argv[1:])
