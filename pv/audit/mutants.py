"""(id, property, file under pyins/, old text (must match exactly once), new text)."""
MUTANTS = [
    ('C07-a', 'C07', 'kalman.py', 'U.dot(P).dot(U.T) + K.dot(R).dot(K.T)', 'U.dot(P).dot(U.T)'),
    ('C07-b', 'C07', 'kalman.py', 'solve_triangular(L, e, lower=True))', 'solve_triangular(L.T, e, lower=False))'),
    ('C07-c', 'C07', 'kalman.py', '    e = z - H.dot(x)\n', '    e = z - H.dot(x)\n    x = x.copy(); P = P.copy(); P += 0\n    z -= 0 * e\n    H *= 1.0\n    R[0, 0] *= 1 + 1e-15\n'),
    ('C07-d', 'C07', 'kalman.py', 'U.dot(P).dot(U.T) + K.dot(R).dot(K.T)', 'U.dot(P)'),
    ('C07-e', 'C07', 'kalman.py', 'return (x + K @ (z - H @ x),', 'return (x + K @ (z - H @ (x + K @ (z - H @ x))) if len(z) > 4 else x + K @ (z - H @ x),'),
]
