"""./check <ID> quick|thorough | --replay <file>"""
import glob
import json
import multiprocessing as mp
import os
import sys
import time

from . import core

QUICK_BUDGET_S = 420
THOROUGH_BUDGET_S = 3000
# thorough-tier multipliers on the per-clause case counts (chosen from measured wall times so that every
# thorough run takes roughly 10-25 minutes on 16 cores; the wall guard only stops generation, never fails)
THOROUGH_SCALE = {'C01': 1, 'C02': 4, 'C03': 3, 'C04': 2, 'C05': 4, 'C06': 3, 'C07': 6, 'C08': 8, 'C09': 8, 'C10': 10,
                  'C11': 4, 'C12': 2, 'C13': 8, 'C14': 8, 'C15': 8, 'C16': 10, 'C17': 8, 'C18': 4, 'C19': 6}


def _merge(results):
    per_clause = {}
    for r in results:
        c = per_clause.setdefault(r['clause'], {
            'evaluations': 0, 'nontrivial': set(), 'labels': {}, 'stats': {},
            'excluded_known': {}, 'inconclusive': {}, 'truncated': False,
            'samples': [], 'shard_seeds': [], 'wall_s': 0.0})
        c['evaluations'] += r['evals']
        c['nontrivial'].update(r['nontrivial'])
        for k, v in r['labels'].items():
            c['labels'][k] = c['labels'].get(k, 0) + v
        for k, v in r['stats'].items():
            c['stats'][k] = max(c['stats'].get(k, float('-inf')), v)
        for key, src in (('excluded_known', 'excluded'), ('inconclusive', 'inconclusive')):
            for k, v in r[src].items():
                c[key][k] = c[key].get(k, 0) + v
        c['truncated'] = c['truncated'] or r['truncated']
        if len(c['samples']) < 3:
            c['samples'].extend(r['samples'][:3 - len(c['samples'])])
        c['shard_seeds'].append(r['seed'])
        c['wall_s'] = max(c['wall_s'], r['wall_s'])
    return per_clause


def main(argv):
    if len(argv) < 2:
        print(__doc__)
        return 2
    prop = argv[0].upper()
    t0 = time.time()
    try:
        mod = core.load_module(prop)
    except Exception as e:  # noqa
        import traceback
        traceback.print_exc()
        print(f'HARNESS-ERROR: cannot load checks for {prop}: {e}')
        return 2

    if argv[1] == '--replay':
        path = argv[2]
        try:
            violated, sig, msg = core.replay_file(prop, path)
        except Exception as e:  # noqa
            import traceback
            traceback.print_exc()
            print(f'HARNESS-ERROR: replay failed: {e}')
            return 2
        if violated:
            print(f'replay: {sig}: {msg[:1500]}')
            print(f'VIOLATION property={prop} replay={path}')
            return 1
        print(f'replay: case passes ({path})')
        return 0

    tier = argv[1]
    if tier not in ('quick', 'thorough'):
        print(__doc__)
        return 2
    seed = int(os.environ.get('VERIF_SEED', '1'))
    jobs = int(os.environ.get('PV_JOBS', '16'))
    only = os.environ.get('PV_CLAUSE')
    scale = float(os.environ.get('PV_SCALE', '1'))
    budget = QUICK_BUDGET_S if tier == 'quick' else THOROUGH_BUDGET_S
    budget = float(os.environ.get('PV_BUDGET_S', budget))

    # reference self-tests (exit 2 on failure: never a VIOLATION)
    try:
        if hasattr(mod, 'selftest'):
            mod.selftest()
        if hasattr(mod, 'warmup'):
            mod.warmup()
    except Exception as e:  # noqa
        import traceback
        traceback.print_exc()
        print(f'HARNESS-ERROR: reference self-test failed: {e}')
        return 2

    violations = []   # (clause, replay path, sig)
    known_lines = []
    harness_errors = []

    # 1. committed regression replays
    known = core.load_known()
    n_replayed = 0
    for path in sorted(glob.glob(os.path.join(core.VERIF_DIR, 'replays', prop, '*.json'))):
        try:
            violated, sig, msg = core.replay_file(prop, path)
        except Exception as e:  # noqa
            harness_errors.append(f'replay {path}: {e}')
            continue
        n_replayed += 1
        if violated:
            with open(path) as f:
                clause = json.load(f)['clause']
            k = core.match_known(known, prop, clause, sig)
            if k is not None:
                known_lines.append(f"KNOWN-FINDING: property={prop} {k['what']}")
            else:
                violations.append((clause, path, sig, msg))

    # 2. generated search
    tasks = []
    for c in mod.CLAUSES:
        if only and c.name not in only.split(','):
            continue
        n, shards = c.quick if tier == 'quick' else c.thorough
        n = max(1, int(n * scale * (THOROUGH_SCALE.get(prop, 1) if tier == 'thorough' else 1)))
        shards = max(1, min(shards, n))
        shrink = c.shrink_quick if tier == 'quick' else True
        per = -(-n // shards)
        for s in range(shards):
            tasks.append((prop, c.name, tier, seed, s, per, budget, shrink))
    if tasks:
        nproc = max(1, min(jobs, len(tasks)))
        if nproc == 1:
            results = [core.run_task(t) for t in tasks]
        else:
            ctx = mp.get_context(os.environ.get('PV_MP', 'fork'))
            with ctx.Pool(nproc, maxtasksperchild=None) as pool:
                results = pool.map(core.run_task, tasks, chunksize=1)
    else:
        results = []

    for r in results:
        if r['harness_error']:
            harness_errors.append(f"clause {r['clause']} shard {r['shard']}:\n{r['harness_error']}")
        if r['violation']:
            path = core.write_replay(prop, r['clause'], r['violation'], r['seed'], tier)
            violations.append((r['clause'], path, r['violation']['sig'], r['violation']['msg']))

    per_clause = _merge(results)
    for k in known:
        if k.get('status') == 'known' and k['property'] == prop:
            n_ex = sum(c['excluded_known'].get(k['id'], 0) for c in per_clause.values())
            line = f"KNOWN-FINDING: property={prop} {k['what']}"
            if n_ex and line not in known_lines:
                known_lines.append(line)

    all_nt = set()
    for c in per_clause.values():
        all_nt.update(c['nontrivial'])
    samples = []
    for c in per_clause.values():
        samples.extend(c['samples'][:2])
    evaluations = sum(c['evaluations'] for c in per_clause.values())
    clause_report = {}
    for name, c in per_clause.items():
        clause_report[name] = {
            'evaluations': c['evaluations'],
            'distinct_nontrivial': len(c['nontrivial']),
            'class_distribution': dict(sorted(c['labels'].items())),
            'max_residual_over_tolerance': {k: float(f'{v:.4g}') for k, v in sorted(c['stats'].items())},
            'excluded_by_construction_known_findings': c['excluded_known'],
            'inconclusive': c['inconclusive'],
            'truncated_by_wall_guard': c['truncated'],
            'shard_seeds': c['shard_seeds'],
            'wall_s': round(c['wall_s'], 1),
        }
    seen = set()
    uniq_viol = []
    for v in violations:
        if (v[0], v[2]) in seen:
            continue
        seen.add((v[0], v[2]))
        uniq_viol.append(v)

    evidence = {
        'property_id': prop,
        'tier': tier,
        'seed': seed,
        'level': 'exploration',
        'coverage': {
            'evaluations': evaluations,
            'distinct_nontrivial': len(all_nt),
            'rule': mod.RULE,
            'samples': samples if samples else [{'note': 'no non-trivial case recorded'}],
            'exhaustive': False,
            'clauses': clause_report,
            'regression_replays_run': n_replayed,
            'violations': [{'clause': v[0], 'replay': os.path.relpath(v[1], core.VERIF_DIR),
                            'signature': v[2], 'message': v[3][:500]} for v in uniq_viol],
            'harness_errors': len(harness_errors),
        },
        'assumptions': list(getattr(mod, 'ASSUMPTIONS', [])),
        'wall_s': round(time.time() - t0, 2),
        'violations': len(uniq_viol),
    }
    if hasattr(mod, 'evidence_extra'):
        evidence['coverage'].update(mod.evidence_extra(tier, per_clause))
    os.makedirs(os.path.join(core.VERIF_DIR, 'evidence'), exist_ok=True)
    with open(os.path.join(core.VERIF_DIR, 'evidence', f'{prop}.json'), 'w') as f:
        json.dump(evidence, f, indent=1, sort_keys=True)
        f.write('\n')

    for name, c in clause_report.items():
        worst = max(c['max_residual_over_tolerance'].values(), default=0.0)
        print(f"{prop} {tier} clause={name} evaluations={c['evaluations']} "
              f"nontrivial={c['distinct_nontrivial']} worst_residual/tol={worst:.3g} "
              f"wall={c['wall_s']}s" + (' TRUNCATED' if c['truncated_by_wall_guard'] else ''))
    for line in known_lines:
        print(line)
    if harness_errors:
        for h in harness_errors:
            print('HARNESS-ERROR:', h[-2500:])
        if not uniq_viol:
            return 2
    for v in uniq_viol:
        print(f'violation clause={v[0]} {v[2]}: {v[3][:1200]}')
        print(f'VIOLATION property={prop} replay={v[1]}')
    if uniq_viol:
        return 1
    print(f'{prop} {tier}: OK evaluations={evaluations} distinct_nontrivial={len(all_nt)} '
          f'wall={time.time() - t0:.1f}s')
    return 0


if __name__ == '__main__':
    sys.exit(main(sys.argv[1:]))
