"""Independent closed-form WGS-84 geometry and normal gravity (never imports pyins).
Constants are typed in from the WGS-84 definition, not copied from pyins.earth."""
import numpy as np

A = 6378137.0                      # semi-major axis, m
INV_F = 298.257223563              # inverse flattening
FLAT = 1.0 / INV_F
E2 = FLAT * (2.0 - FLAT)           # first eccentricity squared = 6.69437999014e-3
B = A * (1.0 - FLAT)
RATE = 7.292115e-5                 # rad/s
GE = 9.7803253359                  # normal gravity at the equator
GP = 9.8321849378                  # normal gravity at the poles
KSOM = B * GP / (A * GE) - 1.0     # Somigliana constant
D2R = np.pi / 180.0


def radii(lat_deg, alt=0.0, dtype=float):
    """(meridian radius + alt, transverse radius + alt)."""
    lat = np.asarray(lat_deg, dtype=dtype) * dtype(D2R) if dtype is not float else np.asarray(lat_deg, float) * D2R
    s2 = np.sin(lat) ** 2
    w2 = 1 - E2 * s2
    rt = A / np.sqrt(w2)
    rm = A * (1 - E2) / (w2 * np.sqrt(w2))
    return rm + alt, rt + alt


def lla_to_ecef(lla, dtype=float):
    lla = np.asarray(lla, dtype=dtype)
    lat = lla[..., 0] * dtype(np.pi) / dtype(180)
    lon = lla[..., 1] * dtype(np.pi) / dtype(180)
    alt = lla[..., 2]
    s, c = np.sin(lat), np.cos(lat)
    rt = dtype(A) / np.sqrt(1 - dtype(E2) * s * s)
    x = (rt + alt) * c * np.cos(lon)
    y = (rt + alt) * c * np.sin(lon)
    z = ((1 - dtype(E2)) * rt + alt) * s
    return np.stack([x, y, z], axis=-1)


def ecef_to_lla(r, iters=12):
    """Fixed-point (Heikkinen-free) iteration on latitude in longdouble; returns float degrees.
    Converges for alt > -6000 km; not used near the Earth's centre."""
    LD = np.longdouble
    r = np.asarray(r, dtype=LD)
    x, y, z = r[..., 0], r[..., 1], r[..., 2]
    p = np.hypot(x, y)
    lon = np.arctan2(y, x)
    e2 = LD(E2)
    lat = np.arctan2(z, p * (1 - e2))
    for _ in range(iters):
        s = np.sin(lat)
        rt = LD(A) / np.sqrt(1 - e2 * s * s)
        lat = np.arctan2(z + e2 * rt * s, p)
    s, c = np.sin(lat), np.cos(lat)
    rt = LD(A) / np.sqrt(1 - e2 * s * s)
    # altitude by the better-conditioned of the two formulas
    alt = np.where(np.abs(c) > 0.5, p / np.where(np.abs(c) > 0.5, c, 1) - rt,
                   z / np.where(np.abs(c) > 0.5, 1, s) - (1 - e2) * rt)
    out = np.stack([lat * 180 / LD(np.pi), lon * 180 / LD(np.pi), alt], axis=-1)
    return np.asarray(out, dtype=float)


def ned_axes(lat_deg, lon_deg):
    """Unit vectors North, East, Down in ECEF, stacked as the columns of C_e<-n. (..., 3, 3)"""
    lat = np.asarray(lat_deg, float) * D2R
    lon = np.asarray(lon_deg, float) * D2R
    sl, cl = np.sin(lat), np.cos(lat)
    so, co = np.sin(lon), np.cos(lon)
    n = np.stack([-sl * co, -sl * so, cl], axis=-1)
    e = np.stack([-so, co, np.zeros_like(so)], axis=-1)
    d = np.stack([-cl * co, -cl * so, -sl], axis=-1)
    return np.stack([n, e, d], axis=-1)


def gravity(lat_deg, alt=0.0):
    """Somigliana normal gravity with the linear height factor (1 - 2h/a)."""
    s2 = np.sin(np.asarray(lat_deg, float) * D2R) ** 2
    return GE * (1 + KSOM * s2) / np.sqrt(1 - E2 * s2) * (1 - 2 * np.asarray(alt, float) / A)


def rate_n(lat_deg):
    lat = np.asarray(lat_deg, float) * D2R
    return np.stack([RATE * np.cos(lat), np.zeros_like(lat), -RATE * np.sin(lat)], axis=-1)


def metres_between(lla1, lla2):
    """NED metres from lla2 to lla1 via ECEF chord projected on the NED axes at the mid point
    (exact geometry up to O(d^3/R^2))."""
    lla1 = np.asarray(lla1, float)
    lla2 = np.asarray(lla2, float)
    mid = 0.5 * (lla1 + lla2)
    d = lla_to_ecef(lla1, np.longdouble) - lla_to_ecef(lla2, np.longdouble)
    C = ned_axes(mid[..., 0], mid[..., 1])
    return np.einsum('...ji,...j->...i', C, np.asarray(d, float))


def selftest():
    assert abs(E2 - 6.69437999014e-3) < 1e-14
    rng = np.random.RandomState(1)
    lla = np.column_stack([rng.uniform(-90, 90, 2000), rng.uniform(-180, 180, 2000),
                           rng.uniform(-1e4, 4e7, 2000)])
    back = ecef_to_lla(lla_to_ecef(lla, np.longdouble))
    dlat = np.abs(back[:, 0] - lla[:, 0]) * D2R * (A + lla[:, 2])
    assert dlat.max() < 1e-7, dlat.max()
    assert np.abs(back[:, 2] - lla[:, 2]).max() < 1e-7
    # axes are the normalised partial derivatives of position
    h = 1e-3
    p = np.array([[37.0, -122.0, 120.0]])
    dN = (lla_to_ecef(p + [h, 0, 0], np.longdouble) - lla_to_ecef(p - [h, 0, 0], np.longdouble)) / (2 * h * D2R)
    rm, rt = radii(37.0, 120.0)
    C = ned_axes(37.0, -122.0)
    assert np.abs(np.asarray(dN[0], float) / rm - C[:, 0]).max() < 1e-8
    assert abs(gravity(0, 0) - GE) < 1e-15 and abs(gravity(90, 0) - GP) < 1e-14
