"""Own table algebra for C18 (never imports pyins / scipy): linear interpolation, shortest-arc
rotation interpolation, state difference in NED metres / wrapped degrees."""
import numpy as np

from . import rot as R
from . import wgs84 as W

RPH = ['roll', 'pitch', 'heading']
LLA = ['lat', 'lon', 'alt']


def wrap180(d):
    """(-180, 180]"""
    d = (np.asarray(d, float) + 180.0) % 360.0 - 180.0
    return np.where(d == -180.0, 180.0, d)


def interp_rows(t, values, tq):
    """Piecewise-linear interpolation of the rows of `values` (n, k) at times tq inside [t0, tn]."""
    t = np.asarray(t, float)
    tq = np.asarray(tq, float)
    i = np.clip(np.searchsorted(t, tq, side='right') - 1, 0, len(t) - 2)
    a = (tq - t[i]) / (t[i + 1] - t[i])
    return values[i] * (1 - a)[:, None] + values[i + 1] * a[:, None], i, a


def interp_rotation(t, rph, tq):
    """Shortest-arc interpolation; returns DCMs (m,3,3) at tq."""
    C = np.asarray(R.dcm_from_rph(np.asarray(rph, float)), float)
    _, i, a = interp_rows(t, np.zeros((len(t), 1)), tq)
    out = np.empty((len(tq), 3, 3))
    for k in range(len(tq)):
        C0, C1 = C[i[k]], C[i[k] + 1]
        rv = np.asarray(R.log_so3(C0.T @ C1, float), float)
        out[k] = C0 @ np.asarray(R.exp_so3(rv * a[k], float), float)
    return out


def metres_scale(lat1, alt1, lat2, alt2):
    rm, rt = W.radii(0.5 * (lat1 + lat2), 0.5 * (alt1 + alt2))
    return rm * W.D2R, rt * np.cos(0.5 * (lat1 + lat2) * W.D2R) * W.D2R
