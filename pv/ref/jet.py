"""Second-order truncated Taylor ("jet") arithmetic: exact time derivatives of composite
expressions without numerical differencing. A Jet carries (value, first, second derivative)
as numpy arrays over a vector of time points."""
import numpy as np


class Jet:
    __slots__ = ('v', 'd', 'dd')

    def __init__(self, v, d=None, dd=None):
        self.v = np.asarray(v)
        self.d = np.zeros_like(self.v) if d is None else np.asarray(d)
        self.dd = np.zeros_like(self.v) if dd is None else np.asarray(dd)

    @staticmethod
    def lift(x):
        return x if isinstance(x, Jet) else Jet(np.asarray(x, dtype=float))

    def __add__(self, o):
        o = Jet.lift(o)
        return Jet(self.v + o.v, self.d + o.d, self.dd + o.dd)
    __radd__ = __add__

    def __neg__(self):
        return Jet(-self.v, -self.d, -self.dd)

    def __sub__(self, o):
        return self + (-Jet.lift(o))

    def __rsub__(self, o):
        return Jet.lift(o) + (-self)

    def __mul__(self, o):
        o = Jet.lift(o)
        return Jet(self.v * o.v, self.d * o.v + self.v * o.d, self.dd * o.v + 2 * self.d * o.d + self.v * o.dd)
    __rmul__ = __mul__

    def recip(self):
        r = 1.0 / self.v
        return Jet(r, -self.d * r * r, -self.dd * r * r + 2 * self.d * self.d * r ** 3)

    def __truediv__(self, o):
        return self * Jet.lift(o).recip()

    def __rtruediv__(self, o):
        return Jet.lift(o) * self.recip()


def compose(x, f, f1, f2):
    """f(x) for a Jet x with derivatives f1 = f', f2 = f'' evaluated at x.v."""
    return Jet(f, f1 * x.d, f2 * x.d * x.d + f1 * x.dd)


def sin(x):
    s, c = np.sin(x.v), np.cos(x.v)
    return compose(x, s, c, -s)


def cos(x):
    s, c = np.sin(x.v), np.cos(x.v)
    return compose(x, c, -s, -c)


def sqrt(x):
    r = np.sqrt(x.v)
    return compose(x, r, 0.5 / r, -0.25 / (r * x.v))


def sinusoid_sum(t, const, rate, amps, freqs, phases):
    """const + rate*t + sum amps*sin(freqs*t + phases) as a Jet over the time vector t."""
    t = np.asarray(t, dtype=float)
    v = const + rate * t
    d = np.full_like(t, rate)
    dd = np.zeros_like(t)
    for a, w, p in zip(amps, freqs, phases):
        v = v + a * np.sin(w * t + p)
        d = d + a * w * np.cos(w * t + p)
        dd = dd - a * w * w * np.sin(w * t + p)
    return Jet(v, d, dd)


def selftest():
    t = np.linspace(0, 3, 7)
    x = sinusoid_sum(t, 0.3, 0.1, [0.5], [1.3], [0.2])
    y = sin(x) * sqrt(2 + cos(x)) / (1 + x * x)
    h = 1e-4
    def f(tt):
        xx = 0.3 + 0.1 * tt + 0.5 * np.sin(1.3 * tt + 0.2)
        return np.sin(xx) * np.sqrt(2 + np.cos(xx)) / (1 + xx * xx)
    d1 = (f(t + h) - f(t - h)) / (2 * h)
    d2 = (f(t + h) - 2 * f(t) + f(t - h)) / h ** 2
    assert np.abs(y.v - f(t)).max() < 1e-15
    assert np.abs(y.d - d1).max() < 1e-7, np.abs(y.d - d1).max()
    assert np.abs(y.dd - d2).max() < 1e-6, np.abs(y.dd - d2).max()
