"""Independent reference solution of rigid-body navigation on the rotating WGS-84 ellipsoid with
Somigliana normal gravity and the linear height factor (never imports pyins).

State y = [lat(rad), lon(rad), alt, VN, VE, VD, q0..q3] (q: body->NED, scalar first).
Body signals are constants plus sinusoid sums given as a parameter array P of shape (6, K, 3):
channel c (3 gyro, 3 accel) = sum_k P[c,k,0] * sin(P[c,k,1] t + P[c,k,2]).
RK4 in the NED frame (a different formulation from pyins' two-rotation discrete update)."""
import numba
import numpy as np

from . import wgs84 as W

A = W.A
E2 = W.E2
GE = W.GE
KS = W.KSOM
RATE = W.RATE


@numba.njit(cache=False)
def signal(t, P):
    out = np.zeros(6)
    for c in range(6):
        s = 0.0
        for k in range(P.shape[1]):
            s += P[c, k, 0] * np.sin(P[c, k, 1] * t + P[c, k, 2])
        out[c] = s
    return out


@numba.njit(cache=False)
def signal_integral(t0, t1, P):
    """Analytic integral of the signals over [t0, t1]."""
    out = np.zeros(6)
    for c in range(6):
        s = 0.0
        for k in range(P.shape[1]):
            a, w, ph = P[c, k, 0], P[c, k, 1], P[c, k, 2]
            if w == 0.0:
                s += a * np.sin(ph) * (t1 - t0)
            else:
                s += -a / w * (np.cos(w * t1 + ph) - np.cos(w * t0 + ph))
        out[c] = s
    return out


@numba.njit(cache=False)
def rhs(t, y, P):
    lat = y[0]
    alt = y[2]
    v0, v1, v2 = y[3], y[4], y[5]
    q0, q1, q2, q3 = y[6], y[7], y[8], y[9]
    s = np.sin(lat)
    c = np.cos(lat)
    x = 1 - E2 * s * s
    rt = A / np.sqrt(x)
    rm = rt * (1 - E2) / x
    g = GE * (1 + KS * s * s) / np.sqrt(x) * (1 - 2 * alt / A)
    u = signal(t, P)
    O0 = RATE * c
    O2 = -RATE * s
    r0 = v1 / (rt + alt)
    r1 = -v0 / (rm + alt)
    r2 = -v1 * s / c / (rt + alt)
    C00 = 1 - 2 * (q2 * q2 + q3 * q3)
    C01 = 2 * (q1 * q2 - q0 * q3)
    C02 = 2 * (q1 * q3 + q0 * q2)
    C10 = 2 * (q1 * q2 + q0 * q3)
    C11 = 1 - 2 * (q1 * q1 + q3 * q3)
    C12 = 2 * (q2 * q3 - q0 * q1)
    C20 = 2 * (q1 * q3 - q0 * q2)
    C21 = 2 * (q2 * q3 + q0 * q1)
    C22 = 1 - 2 * (q1 * q1 + q2 * q2)
    f0 = C00 * u[3] + C01 * u[4] + C02 * u[5]
    f1 = C10 * u[3] + C11 * u[4] + C12 * u[5]
    f2 = C20 * u[3] + C21 * u[4] + C22 * u[5]
    a0 = 2 * O0 + r0
    a1 = r1
    a2 = 2 * O2 + r2
    # (2 Omega + rho) x V
    k0 = a1 * v2 - a2 * v1
    k1 = a2 * v0 - a0 * v2
    k2 = a0 * v1 - a1 * v0
    dy = np.empty(10)
    dy[0] = v0 / (rm + alt)
    dy[1] = v1 / ((rt + alt) * c)
    dy[2] = -v2
    dy[3] = f0 - k0
    dy[4] = f1 - k1
    dy[5] = f2 - k2 + g
    w0, w1, w2 = u[0], u[1], u[2]
    n0 = O0 + r0
    n1 = r1
    n2 = O2 + r2
    # q' = 1/2 q (x) [0, w_b]  -  1/2 [0, w_in^n] (x) q
    dy[6] = 0.5 * (-q1 * w0 - q2 * w1 - q3 * w2) - 0.5 * (-n0 * q1 - n1 * q2 - n2 * q3)
    dy[7] = 0.5 * (q0 * w0 + q2 * w2 - q3 * w1) - 0.5 * (n0 * q0 + n1 * q3 - n2 * q2)
    dy[8] = 0.5 * (q0 * w1 - q1 * w2 + q3 * w0) - 0.5 * (n1 * q0 - n0 * q3 + n2 * q1)
    dy[9] = 0.5 * (q0 * w2 + q1 * w1 - q2 * w0) - 0.5 * (n2 * q0 + n0 * q2 - n1 * q1)
    return dy


@numba.njit(cache=False)
def rk4(y0, P, T, n, nout):
    """Integrate over [0, T] with n steps; returns nout+1 equally spaced checkpoints (n % nout == 0)."""
    h = T / n
    y = y0.copy()
    out = np.empty((nout + 1, 10))
    out[0] = y
    every = n // nout
    t = 0.0
    for i in range(n):
        k1 = rhs(t, y, P)
        k2 = rhs(t + h / 2, y + h / 2 * k1, P)
        k3 = rhs(t + h / 2, y + h / 2 * k2, P)
        k4 = rhs(t + h, y + h * k3, P)
        y = y + h / 6 * (k1 + 2 * k2 + 2 * k3 + k4)
        t = (i + 1) * h
        nrm = np.sqrt(y[6] * y[6] + y[7] * y[7] + y[8] * y[8] + y[9] * y[9])
        y[6:10] /= nrm
        if (i + 1) % every == 0:
            out[(i + 1) // every] = y
    return out


@numba.njit(cache=False)
def sample_rate(t, P):
    out = np.empty((len(t), 6))
    for i in range(len(t)):
        out[i] = signal(t[i], P)
    return out


@numba.njit(cache=False)
def sample_increment(t, h, P):
    out = np.empty((len(t), 6))
    for i in range(len(t)):
        out[i] = signal_integral(t[i] - h, t[i], P)
    return out


def dcm_from_quat(q):
    q0, q1, q2, q3 = q[..., 0], q[..., 1], q[..., 2], q[..., 3]
    C = np.empty(q.shape[:-1] + (3, 3))
    C[..., 0, 0] = 1 - 2 * (q2 * q2 + q3 * q3)
    C[..., 0, 1] = 2 * (q1 * q2 - q0 * q3)
    C[..., 0, 2] = 2 * (q1 * q3 + q0 * q2)
    C[..., 1, 0] = 2 * (q1 * q2 + q0 * q3)
    C[..., 1, 1] = 1 - 2 * (q1 * q1 + q3 * q3)
    C[..., 1, 2] = 2 * (q2 * q3 - q0 * q1)
    C[..., 2, 0] = 2 * (q1 * q3 - q0 * q2)
    C[..., 2, 1] = 2 * (q2 * q3 + q0 * q1)
    C[..., 2, 2] = 1 - 2 * (q1 * q1 + q2 * q2)
    return C


def selftest():
    from . import rot
    # rest at a point: constant specific force = -g along down in NED, body rate = Earth rate in body axes
    lat = 40.0 * W.D2R
    g = float(W.gravity(40.0, 100.0))
    P = np.zeros((6, 1, 3))
    om = W.rate_n(40.0)
    for c in range(3):
        P[c, 0] = [om[c], 0.0, np.pi / 2]
    P[5, 0] = [-g, 0.0, np.pi / 2]
    y0 = np.array([lat, 0.3, 100.0, 0, 0, 0, 1.0, 0, 0, 0])
    out = rk4(y0, P, 20.0, 2000, 10)
    assert np.abs(out[-1, :3] - y0[:3]).max() < 1e-9 and np.abs(out[-1, 3:6]).max() < 1e-9, out[-1]
    assert np.abs(out[-1, 6:] - y0[6:]).max() < 1e-12
    # step halving agreement on a lively case
    rng = np.random.RandomState(0)
    P = np.zeros((6, 3, 3))
    for c in range(6):
        for k in range(2):
            P[c, k] = [(1.0 if c < 3 else 5.0) * rng.uniform(0.1, 1), rng.uniform(0.2, 6), rng.uniform(0, 6)]
    P[5, 2] = [-9.8, 0.0, np.pi / 2]
    y0 = np.array([-0.6, 2.0, 500.0, 30.0, -20.0, 1.0, 1.0, 0, 0, 0])
    a = rk4(y0, P, 5.0, 10000, 5)
    b = rk4(y0, P, 5.0, 20000, 5)
    assert np.abs(a - b).max() < 1e-8, np.abs(a - b).max()
