"""Designed smooth trajectories with EXACT body rate and specific force (never imports pyins).

A trajectory is given by sinusoid-sum functions lat(t), lon(t) [deg], alt(t) [m] and
roll(t), pitch(t), heading(t) [deg]. From jets (exact derivatives) follow the NED velocity,
its derivative, and
    w_ib^b = C^T (Omega + rho) + w_nb^b
    f^b    = C^T (dV/dt + (2 Omega + rho) x V - g e_D)
with WGS-84 radii and Somigliana gravity with the linear height factor."""
import numpy as np

from . import jet as J
from . import wgs84 as W

D2R = np.pi / 180.0


class Design:
    """params: dict channel -> (const, rate, amps, freqs, phases) in degrees/metres."""

    CHANNELS = ('lat', 'lon', 'alt', 'roll', 'pitch', 'heading')

    def __init__(self, params):
        self.p = params

    def jets(self, t):
        return {c: J.sinusoid_sum(t, *self.p[c]) for c in self.CHANNELS}

    def evaluate(self, t):
        """Returns dict with lla (n,3 deg/m), V (n,3), rph (n,3 deg), gyro (n,3 rad/s), accel (n,3 m/s^2)."""
        t = np.asarray(t, dtype=float)
        j = self.jets(t)
        lat = j['lat'] * D2R
        lon = j['lon'] * D2R
        alt = j['alt']
        s, c = J.sin(lat), J.cos(lat)
        w2 = 1 - W.E2 * s * s
        sw = J.sqrt(w2)
        rt = W.A / sw
        rm = W.A * (1 - W.E2) / (w2 * sw)
        latd = J.Jet(lat.d, lat.dd, np.zeros_like(t))      # first derivative as a (first-order) jet
        lond = J.Jet(lon.d, lon.dd, np.zeros_like(t))
        altd = J.Jet(alt.d, alt.dd, np.zeros_like(t))
        VN = (rm + alt) * latd
        VE = (rt + alt) * c * lond
        VD = -altd
        V = np.stack([VN.v, VE.v, VD.v], axis=-1)
        Vdot = np.stack([VN.d, VE.d, VD.d], axis=-1)
        Om = np.stack([W.RATE * c.v, np.zeros_like(t), -W.RATE * s.v], axis=-1)
        rho = np.stack([VE.v / (rt.v + alt.v), -VN.v / (rm.v + alt.v), -VE.v * s.v / c.v / (rt.v + alt.v)], axis=-1)
        g = W.gravity(j['lat'].v, alt.v)
        r, p, h = j['roll'] * D2R, j['pitch'] * D2R, j['heading'] * D2R
        sr, cr, sp, cp, sh, ch = np.sin(r.v), np.cos(r.v), np.sin(p.v), np.cos(p.v), np.sin(h.v), np.cos(h.v)
        C = np.empty(t.shape + (3, 3))
        C[..., 0, 0] = ch * cp
        C[..., 0, 1] = ch * sp * sr - sh * cr
        C[..., 0, 2] = ch * sp * cr + sh * sr
        C[..., 1, 0] = sh * cp
        C[..., 1, 1] = sh * sp * sr + ch * cr
        C[..., 1, 2] = sh * sp * cr - ch * sr
        C[..., 2, 0] = -sp
        C[..., 2, 1] = cp * sr
        C[..., 2, 2] = cp * cr
        w_nb = np.stack([r.d - h.d * sp, p.d * cr + h.d * sr * cp, -p.d * sr + h.d * cr * cp], axis=-1)
        gyro = np.einsum('...ji,...j->...i', C, Om + rho) + w_nb
        a_n = Vdot + np.cross(2 * Om + rho, V)
        a_n[..., 2] -= g
        accel = np.einsum('...ji,...j->...i', C, a_n)
        return {'lla': np.stack([j['lat'].v, j['lon'].v, alt.v], axis=-1), 'V': V,
                'rph': np.stack([j['roll'].v, j['pitch'].v, j['heading'].v], axis=-1),
                'gyro': gyro, 'accel': accel, 'C': C}

    def increments(self, t):
        """Integrals of gyro / accel over each interval [t[k-1], t[k]] by 8-point Gauss-Legendre. (n-1, 3) each."""
        x, w = np.polynomial.legendre.leggauss(8)
        t = np.asarray(t, float)
        a, b = t[:-1], t[1:]
        mid, half = 0.5 * (a + b), 0.5 * (b - a)
        tt = (mid[:, None] + half[:, None] * x[None, :]).ravel()
        ev = self.evaluate(tt)
        G = ev['gyro'].reshape(len(a), 8, 3)
        F = ev['accel'].reshape(len(a), 8, 3)
        return np.einsum('nki,k->ni', G, w) * half[:, None], np.einsum('nki,k->ni', F, w) * half[:, None]


def selftest():
    from . import navode as N
    from . import rot
    J.selftest()
    # two independent oracles agree: the navigation ODE fed with the designed body signals reproduces the design
    p = {'lat': (-33.0, 2e-4, [1e-3], [0.05], [0.3]), 'lon': (151.0, -3e-4, [2e-3], [0.04], [1.0]),
         'alt': (500.0, 1.0, [20.0], [0.1], [0.0]), 'roll': (5.0, 0.0, [10.0], [0.3], [0.5]),
         'pitch': (-3.0, 0.0, [8.0], [0.2], [1.5]), 'heading': (200.0, 1.0, [15.0], [0.1], [2.0])}
    d = Design(p)
    T = 20.0
    n = 40000
    # RK4 on the ODE with signals evaluated from the design at the RK4 nodes: done here in numpy (slow, short)
    hh = T / 2000
    tt = np.arange(0, T + hh / 2, hh / 2)
    ev = d.evaluate(tt)
    e0 = d.evaluate(np.array([0.0]))
    q = rot.quat_from_dcm(e0['C'][0])
    y = np.hstack([e0['lla'][0, 0] * D2R, e0['lla'][0, 1] * D2R, e0['lla'][0, 2], e0['V'][0], q])

    def rhs(k, y):   # k indexes tt
        P = np.zeros((6, 1, 3))
        for c in range(3):
            P[c, 0] = [ev['gyro'][k, c], 0.0, np.pi / 2]
            P[3 + c, 0] = [ev['accel'][k, c], 0.0, np.pi / 2]
        return N.rhs(0.0, y, P)
    for i in range(2000):
        k1 = rhs(2 * i, y)
        k2 = rhs(2 * i + 1, y + hh / 2 * k1)
        k3 = rhs(2 * i + 1, y + hh / 2 * k2)
        k4 = rhs(2 * i + 2, y + hh * k3)
        y = y + hh / 6 * (k1 + 2 * k2 + 2 * k3 + k4)
        y[6:] /= np.linalg.norm(y[6:])
    eT = d.evaluate(np.array([T]))
    dpos = np.hypot((y[0] / D2R - eT['lla'][0, 0]) * D2R * 6.4e6, (y[1] / D2R - eT['lla'][0, 1]) * D2R * 6.4e6 * np.cos(y[0]))
    assert dpos < 1e-4 and abs(y[2] - eT['lla'][0, 2]) < 1e-4, (dpos, y[2] - eT['lla'][0, 2])
    assert np.abs(y[3:6] - eT['V'][0]).max() < 1e-5, np.abs(y[3:6] - eT['V'][0]).max()
    assert rot.angle_between(N.dcm_from_quat(y[6:]), eT['C'][0]) < 1e-8
