"""Independent attitude algebra (never imports pyins / scipy Rotation)."""
import numpy as np

D2R = np.pi / 180.0
LD = np.longdouble


def dcm_from_rph(rph_deg, dtype=float):
    """C_n<-b = Rz(heading) Ry(pitch) Rx(roll), entries typed out. rph in degrees, (..., 3)."""
    a = np.asarray(rph_deg, dtype=dtype) * (dtype(np.pi) / dtype(180))
    r, p, h = a[..., 0], a[..., 1], a[..., 2]
    sr, cr = np.sin(r), np.cos(r)
    sp, cp = np.sin(p), np.cos(p)
    sh, ch = np.sin(h), np.cos(h)
    C = np.empty(a.shape[:-1] + (3, 3), dtype=dtype)
    C[..., 0, 0] = ch * cp
    C[..., 0, 1] = ch * sp * sr - sh * cr
    C[..., 0, 2] = ch * sp * cr + sh * sr
    C[..., 1, 0] = sh * cp
    C[..., 1, 1] = sh * sp * sr + ch * cr
    C[..., 1, 2] = sh * sp * cr - ch * sr
    C[..., 2, 0] = -sp
    C[..., 2, 1] = cp * sr
    C[..., 2, 2] = cp * cr
    return C


def rph_from_dcm(C):
    C = np.asarray(C, float)
    pitch = -np.arcsin(np.clip(C[..., 2, 0], -1, 1))
    roll = np.arctan2(C[..., 2, 1], C[..., 2, 2])
    heading = np.arctan2(C[..., 1, 0], C[..., 0, 0])
    return np.stack([roll, pitch, heading], axis=-1) / D2R


def skew(v, dtype=float):
    v = np.asarray(v, dtype=dtype)
    S = np.zeros(v.shape[:-1] + (3, 3), dtype=dtype)
    S[..., 0, 1] = -v[..., 2]
    S[..., 0, 2] = v[..., 1]
    S[..., 1, 0] = v[..., 2]
    S[..., 1, 2] = -v[..., 0]
    S[..., 2, 0] = -v[..., 1]
    S[..., 2, 1] = v[..., 0]
    return S


def exp_so3(rv, dtype=LD):
    """Rodrigues formula in extended precision, series for tiny angles. (..., 3) -> (..., 3, 3)"""
    rv = np.asarray(rv, dtype=dtype)
    th2 = np.sum(rv * rv, axis=-1)
    th = np.sqrt(th2)
    small = th2 < dtype(1e-8)
    ths = np.where(small, 1, th)
    th2s = np.where(small, 1, th2)
    k1 = np.where(small, 1 - th2 / 6 + th2 * th2 / 120 - th2 ** 3 / 5040, np.sin(ths) / ths)
    k2 = np.where(small, dtype(0.5) - th2 / 24 + th2 * th2 / 720 - th2 ** 3 / 40320,
                  2 * np.sin(ths / 2) ** 2 / th2s)
    K = skew(rv, dtype)
    I = np.eye(3, dtype=dtype)
    return I + k1[..., None, None] * K + k2[..., None, None] * (K @ K)


def log_so3(C, dtype=LD):
    """Rotation vector of a rotation matrix, angle in [0, pi). (..., 3, 3) -> (..., 3)"""
    C = np.asarray(C, dtype=dtype)
    v = np.stack([C[..., 2, 1] - C[..., 1, 2], C[..., 0, 2] - C[..., 2, 0],
                  C[..., 1, 0] - C[..., 0, 1]], axis=-1) / 2
    s = np.sqrt(np.sum(v * v, axis=-1))
    c = (C[..., 0, 0] + C[..., 1, 1] + C[..., 2, 2] - 1) / 2
    ang = np.arctan2(s, c)
    small = s < dtype(1e-10)
    f = np.where(small, 1 + ang * ang / 6, ang / np.where(small, 1, s))
    return v * f[..., None]


def angle_between(C1, C2):
    """Rotation angle (rad) of C1 C2^T (float)."""
    C1 = np.asarray(C1, float)
    C2 = np.asarray(C2, float)
    D = C1 @ np.swapaxes(C2, -1, -2)
    return np.linalg.norm(np.asarray(log_so3(D, float), float), axis=-1)


def quat_from_dcm(C):
    """Unit quaternion (w,x,y,z), w >= 0, robust branch selection."""
    C = np.asarray(C, float)
    t = np.trace(C)
    if t > 0:
        s = np.sqrt(t + 1.0) * 2
        q = np.array([0.25 * s, (C[2, 1] - C[1, 2]) / s, (C[0, 2] - C[2, 0]) / s, (C[1, 0] - C[0, 1]) / s])
    else:
        i = int(np.argmax(np.diag(C)))
        j, k = (i + 1) % 3, (i + 2) % 3
        s = np.sqrt(C[i, i] - C[j, j] - C[k, k] + 1.0) * 2
        q = np.empty(4)
        q[0] = (C[k, j] - C[j, k]) / s
        q[1 + i] = 0.25 * s
        q[1 + j] = (C[j, i] + C[i, j]) / s
        q[1 + k] = (C[k, i] + C[i, k]) / s
    return q if q[0] >= 0 else -q


def selftest():
    rng = np.random.RandomState(2)
    a = np.column_stack([rng.uniform(-180, 180, 500), rng.uniform(-89, 89, 500), rng.uniform(-180, 180, 500)])
    C = dcm_from_rph(a)
    assert np.abs(C @ np.swapaxes(C, 1, 2) - np.eye(3)).max() < 1e-14
    assert np.abs(np.linalg.det(C) - 1).max() < 1e-14
    b = rph_from_dcm(C)
    assert np.abs(((b - a + 180) % 360) - 180).max() < 1e-10
    # convention pins
    assert np.allclose(dcm_from_rph([0, 0, 90.0]) @ [1, 0, 0], [0, 1, 0], atol=1e-15)   # heading: north -> east
    assert (dcm_from_rph([0, 10.0, 0]) @ [1, 0, 0])[2] < 0                               # pitch up: nose has negative down
    assert (dcm_from_rph([10.0, 0, 0]) @ [0, 1, 0])[2] > 0                               # roll: right wing down
    rv = rng.randn(200, 3)
    rv = rv / np.linalg.norm(rv, axis=1)[:, None] * 10.0 ** rng.uniform(-9, np.log10(3.0), (200, 1))
    E = exp_so3(rv)
    back = log_so3(E)
    assert np.abs(np.asarray(back - rv, float)).max() < 1e-14, np.abs(np.asarray(back - rv, float)).max()
