"""Exact body-frame rotation vector and start-frame velocity integral over sampling intervals
(never imports pyins).  dC/dt = C [w x],  du/dt = C f,  C(t0) = I, u(t0) = 0, integrated by RK4
in longdouble with n and 2n sub-steps and Richardson extrapolation; several intervals at once."""
import numpy as np

from . import rot

LD = np.longdouble


def _skew(w):
    S = np.zeros(w.shape[:-1] + (3, 3), dtype=LD)
    S[..., 0, 1] = -w[..., 2]
    S[..., 0, 2] = w[..., 1]
    S[..., 1, 0] = w[..., 2]
    S[..., 1, 2] = -w[..., 0]
    S[..., 2, 0] = -w[..., 1]
    S[..., 2, 1] = w[..., 0]
    return S


def _run(wfun, ffun, t0, h, n):
    m = len(t0)
    C = np.tile(np.eye(3, dtype=LD), (m, 1, 1))
    u = np.zeros((m, 3), dtype=LD)
    dt = h / LD(n)
    t = t0.copy()

    def rhs(tt, CC):
        return np.matmul(CC, _skew(wfun(tt))), np.matmul(CC, ffun(tt)[..., None])[..., 0]
    d2 = dt[:, None, None]
    d1 = dt[:, None]
    for _ in range(n):
        k1C, k1u = rhs(t, C)
        k2C, k2u = rhs(t + dt / 2, C + d2 / 2 * k1C)
        k3C, k3u = rhs(t + dt / 2, C + d2 / 2 * k2C)
        k4C, k4u = rhs(t + dt, C + d2 * k3C)
        C = C + d2 / 6 * (k1C + 2 * k2C + 2 * k3C + k4C)
        u = u + d1 / 6 * (k1u + 2 * k2u + 2 * k3u + k4u)
        t = t + dt
    return C, u


def exact_increments(wfun, ffun, t0, h, n=48):
    """wfun/ffun: (m,) longdouble times -> (m,3) longdouble. t0, h: (m,) arrays.
    Returns rotation vectors (m,3), velocity integrals (m,3) as longdouble, and the reference's own
    error estimate (max |difference between the n and 2n solutions| / 15)."""
    t0 = np.asarray(t0, dtype=LD)
    h = np.asarray(h, dtype=LD)
    C1, u1 = _run(wfun, ffun, t0, h, n)
    C2, u2 = _run(wfun, ffun, t0, h, 2 * n)
    C = C2 + (C2 - C1) / 15
    u = u2 + (u2 - u1) / 15
    err = max(float(np.abs(C2 - C1).max()), float(np.abs(u2 - u1).max())) / 15
    return rot.log_so3(C, LD), u, err


def selftest():
    # constant rate about a fixed axis: rotation vector = w h exactly; f constant along the axis: u = f h
    w0 = np.array([0.3, -0.2, 0.5], dtype=LD)
    wf = lambda t: np.tile(w0, (len(t), 1))
    ff = lambda t: np.tile(2 * w0, (len(t), 1))
    rv, u, err = exact_increments(wf, ff, np.array([0.0, 1.0]), np.array([0.1, 0.05]))
    assert np.abs(np.asarray(rv - np.outer([0.1, 0.05], w0), float)).max() < 1e-17
    assert np.abs(np.asarray(u - np.outer([0.1, 0.05], 2 * w0), float)).max() < 1e-17
    # constant rate, constant force: closed form u = (I h + (1-cos)/th^2 K h^2... ) f  via series
    f0 = np.array([1.0, 2.0, -9.8], dtype=LD)
    ff = lambda t: np.tile(f0, (len(t), 1))
    h = LD(0.16)
    rv, u, err = exact_increments(wf, ff, np.array([0.0]), np.array([h]))
    K = _skew(w0)
    # integral of exp(K t) dt = I h + K h^2/2 + K^2 h^3/6 + ...
    S = np.zeros((3, 3), dtype=LD)
    term = np.eye(3, dtype=LD) * h
    for k in range(1, 30):
        S = S + term
        term = term @ K * h / LD(k + 1)
    assert np.abs(np.asarray(u[0] - S @ f0, float)).max() < 1e-15, np.abs(np.asarray(u[0] - S @ f0, float)).max()
    assert err < 1e-12
