"""Independent linear-Gaussian reference algebra (never imports pyins).

* posterior_mp / posterior_info_mp / whiten_mp : 60-digit Gaussian conditioning.
* discretise_ld / discretise_mp : (Phi, Qd) from the power series of the defining ODEs
      dPhi/dt = F Phi,  dQd/dt = F Qd + Qd F' + Q
  evaluated at dt / 2^j and doubled j times (no block-matrix trick, no scipy expm).
"""
import numpy as np
import mpmath as mp

mp.mp.dps = 60
LD = np.longdouble


# ----------------------------------------------------------------------------- mp helpers
def to_mp(a):
    a = np.asarray(a, dtype=float)
    if a.ndim == 1:
        return mp.matrix([mp.mpf(float(v)) for v in a])
    m = mp.matrix(a.shape[0], a.shape[1])
    for i in range(a.shape[0]):
        for j in range(a.shape[1]):
            m[i, j] = mp.mpf(float(a[i, j]))
    return m


def to_np(m, vec=False):
    if vec:
        return np.array([float(m[i]) for i in range(m.rows)])
    return np.array([[float(m[i, j]) for j in range(m.cols)] for i in range(m.rows)])


def _fwd_solve(L, B):
    """Solve L X = B for lower-triangular L (mp matrices)."""
    n = L.rows
    X = mp.matrix(B.rows, B.cols)
    for c in range(B.cols):
        for i in range(n):
            s = B[i, c]
            for k in range(i):
                s -= L[i, k] * X[k, c]
            X[i, c] = s / L[i, i]
    return X


def _bwd_solve_t(L, B):
    """Solve L' X = B for lower-triangular L."""
    n = L.rows
    X = mp.matrix(B.rows, B.cols)
    for c in range(B.cols):
        for i in reversed(range(n)):
            s = B[i, c]
            for k in range(i + 1, n):
                s -= L[k, i] * X[k, c]
            X[i, c] = s / L[i, i]
    return X


def posterior_mp(x, P, z, H, R):
    """Conditional mean/covariance of x | z for z = H x + v, v~N(0,R); whitened innovation
    with the LOWER Cholesky factor of S. Returns numpy arrays + dict of mp-side norms."""
    x_, P_, z_, H_, R_ = map(to_mp, (x, P, z, H, R))
    HP = H_ * P_
    S = HP * H_.T + R_
    L = mp.cholesky(S)            # lower
    e = z_ - H_ * x_
    # K' = S^-1 H P
    Y = _fwd_solve(L, HP)
    Kt = _bwd_solve_t(L, Y)
    K = Kt.T
    x_post = x_ + K * e
    P_post = P_ - K * HP
    nu = _fwd_solve(L, e)
    return to_np(x_post, True), to_np(P_post), to_np(nu, True), to_np(K), to_np(S)


def posterior_info_mp(x, P, z, H, R):
    """Information form (requires invertible P): (P^-1 + H' R^-1 H)^-1."""
    x_, P_, z_, H_, R_ = map(to_mp, (x, P, z, H, R))
    Pi = mp.inverse(P_)
    Ri = mp.inverse(R_)
    Pp = mp.inverse(Pi + H_.T * Ri * H_)
    xp = Pp * (Pi * x_ + H_.T * Ri * z_)
    return to_np(xp, True), to_np(Pp)


# ----------------------------------------------------------------------------- discretise
def _series_np(F, Q, t, dtype, nterms=40):
    n = F.shape[0]
    Phi = np.eye(n, dtype=dtype)
    Qd = np.zeros((n, n), dtype=dtype)
    term = np.eye(n, dtype=dtype)       # (F t)^k / k!
    M = Q.astype(dtype)                 # M_k
    coef = dtype(t)                     # t^(k+1)/(k+1)!
    for k in range(nterms):
        Qd = Qd + coef * M
        term = term @ F * (dtype(t) / dtype(k + 1))
        Phi = Phi + term
        M = F @ M + M @ F.T
        coef = coef * dtype(t) / dtype(k + 2)
    return Phi, Qd


def discretise_ld(F, Q, dt):
    """longdouble reference; returns longdouble arrays."""
    F = np.asarray(F, dtype=LD)
    Q = np.asarray(Q, dtype=LD)
    n = F.shape[0]
    if dt == 0:
        return np.eye(n, dtype=LD), np.zeros((n, n), dtype=LD)
    nrm = float(np.abs(F).sum(axis=1).max()) * float(dt) if n else 0.0
    j = 0
    while nrm / 2 ** j > 0.5:
        j += 1
    Phi, Qd = _series_np(F, Q, LD(dt) / LD(2 ** j), LD, nterms=30)
    for _ in range(j):
        Qd = Phi @ Qd @ Phi.T + Qd
        Phi = Phi @ Phi
    return Phi, Qd


def discretise_mp(F, Q, dt):
    F_ = to_mp(F)
    Q_ = to_mp(Q)
    n = F_.rows
    if dt == 0:
        return np.eye(n), np.zeros((n, n))
    nrm = float(np.abs(np.asarray(F, float)).sum(axis=1).max()) * float(dt)
    j = 0
    while nrm / 2 ** j > 0.5:
        j += 1
    t = mp.mpf(float(dt)) / mp.mpf(2) ** j
    Phi = mp.eye(n)
    Qd = mp.zeros(n, n)
    term = mp.eye(n)
    M = Q_.copy()
    coef = t
    for k in range(60):
        Qd = Qd + coef * M
        term = term * F_ * (t / (k + 1))
        Phi = Phi + term
        M = F_ * M + M * F_.T
        coef = coef * t / (k + 2)
    for _ in range(j):
        Qd = Phi * Qd * Phi.T + Qd
        Phi = Phi * Phi
    return to_np(Phi), to_np(Qd)


def selftest():
    rng = np.random.RandomState(12345)
    # posterior: covariance form == information form
    for n, m in [(3, 2), (6, 3)]:
        A = rng.randn(n, n)
        P = A @ A.T + 0.1 * np.eye(n)
        H = rng.randn(m, n)
        B = rng.randn(m, m)
        R = B @ B.T + 0.1 * np.eye(m)
        x = rng.randn(n)
        z = rng.randn(m)
        xp, Pp, nu, K, S = posterior_mp(x, P, z, H, R)
        xi, Pi = posterior_info_mp(x, P, z, H, R)
        assert np.abs(xp - xi).max() < 1e-13 and np.abs(Pp - Pi).max() < 1e-13, 'mp forms disagree'
        e = z - H @ x
        assert abs(nu @ nu - e @ np.linalg.solve(S, e)) < 1e-10
    # discretise: longdouble == mp, and scalar closed form
    F = rng.randn(4, 4)
    G = rng.randn(4, 2)
    Q = G @ G.T
    P1, Q1 = discretise_ld(F, Q, 0.7)
    P2, Q2 = discretise_mp(F, Q, 0.7)
    assert np.abs(np.asarray(P1, float) - P2).max() < 1e-14 * max(1, np.abs(P2).max())
    assert np.abs(np.asarray(Q1, float) - Q2).max() < 1e-14 * max(1, np.abs(Q2).max())
    a, q, t = -0.3, 2.0, 1.7
    P1, Q1 = discretise_ld(np.array([[a]]), np.array([[q]]), t)
    assert abs(float(P1[0, 0]) - np.exp(a * t)) < 1e-15
    assert abs(float(Q1[0, 0]) - q * (np.exp(2 * a * t) - 1) / (2 * a)) < 1e-14


# ----------------------------------------------------------------------------- one-shot Gauss-Markov
def batch_estimate(P0, Phis, Qds, meas):
    """Independent one-shot (non-recursive) estimator for x_{k+1} = Phi_k x_k + w_k, w_k ~ N(0, Qd_k),
    x_0 ~ N(0, P0), observations Z_i = H_i x_{node_i} + v_i, v_i ~ N(0, R_i) given in processing order
    (non-decreasing node).  Builds the joint Gaussian of all observations and every node state from the
    unconditional covariances  Cov(x_a, x_b) = Psi(a<-b) P_b  (a >= b)  and conditions once per node.

    Returns xs (M, n), Ps (M, n, n): mean/covariance of x_k given all observations attached to nodes <= k,
    and nu: the observations whitened by the LOWER Cholesky factor of Cov(Z) in processing order."""
    from scipy.linalg import cholesky, cho_solve, solve_triangular
    M = len(Phis) + 1
    n = P0.shape[0]
    Pk = [np.asarray(P0, float)]
    for k in range(M - 1):
        Pk.append(Phis[k] @ Pk[-1] @ Phis[k].T + Qds[k])
    mnodes = sorted({m[0] for m in meas})
    # Psi[(a, b)] for every node a >= b with b a measurement node
    Psi = {}
    for b in mnodes:
        cur = np.eye(n)
        Psi[(b, b)] = cur
        for a in range(b + 1, M):
            cur = Phis[a - 1] @ cur
            Psi[(a, b)] = cur
    sizes = [len(m[1]) for m in meas]
    off = np.concatenate([[0], np.cumsum(sizes)]).astype(int)
    nz = int(off[-1])
    S = np.zeros((nz, nz))
    Z = np.concatenate([np.asarray(m[1], float) for m in meas]) if meas else np.zeros(0)
    for i, (ni, zi, Hi, Ri) in enumerate(meas):
        for j in range(i + 1):
            nj, zj, Hj, Rj = meas[j]
            blk = Hi @ Psi[(ni, nj)] @ Pk[nj] @ Hj.T
            if i == j:
                blk = blk + Ri
            S[off[i]:off[i + 1], off[j]:off[j + 1]] = blk
            if i != j:
                S[off[j]:off[j + 1], off[i]:off[i + 1]] = blk.T
    nodes_of_rows = np.concatenate([[m[0]] * len(m[1]) for m in meas]).astype(int) if meas else np.zeros(0, int)
    nu = solve_triangular(cholesky(S, lower=True), Z, lower=True) if nz else np.zeros(0)
    xs = np.zeros((M, n))
    Ps = np.zeros((M, n, n))
    for k in range(M):
        sel = [i for i, m in enumerate(meas) if m[0] <= k]
        if not sel:
            Ps[k] = Pk[k]
            continue
        C = np.hstack([Psi[(k, meas[i][0])] @ Pk[meas[i][0]] @ meas[i][2].T for i in sel])
        cnt = int(off[sel[-1] + 1])          # processing order is by node, so the selected rows are a prefix
        L = cholesky(S[:cnt, :cnt], lower=True)
        xs[k] = C @ cho_solve((L, True), Z[:cnt])
        Ps[k] = Pk[k] - C @ cho_solve((L, True), C.T)
    condS = float(np.linalg.cond(S)) if nz else 1.0
    return xs, Ps, nu, condS


def selftest_batch():
    """batch_estimate vs a textbook recursive filter written here (both own code)."""
    rng = np.random.RandomState(7)
    n, M = 4, 6
    A = rng.randn(n, n)
    P0 = A @ A.T
    Phis = [np.eye(n) + 0.1 * rng.randn(n, n) for _ in range(M - 1)]
    Qds = []
    for _ in range(M - 1):
        B = rng.randn(n, 2)
        Qds.append(0.01 * B @ B.T)
    meas = []
    for node in (0, 2, 2, 5):
        H = rng.randn(2, n)
        meas.append((node, rng.randn(2), H, np.diag(rng.uniform(0.1, 1, 2))))
    xs, Ps, nu, _ = batch_estimate(P0, Phis, Qds, meas)
    x = np.zeros(n)
    P = P0.copy()
    nus = []
    for k in range(M):
        for (node, z, H, R) in meas:
            if node == k:
                S = H @ P @ H.T + R
                K = P @ H.T @ np.linalg.inv(S)
                nus.append(np.linalg.solve(np.linalg.cholesky(S), z - H @ x))
                x = x + K @ (z - H @ x)
                P = P - K @ H @ P
        assert np.abs(x - xs[k]).max() < 1e-10 and np.abs(P - Ps[k]).max() < 1e-10, (k, np.abs(x - xs[k]).max())
        if k < M - 1:
            x = Phis[k] @ x
            P = Phis[k] @ P @ Phis[k].T + Qds[k]
    assert np.abs(np.concatenate(nus) - nu).max() < 1e-10
